"""Decide one property: run its units, classify, print VIOLATION / KNOWN-FINDING lines,
write evidence/<id>.json and replay files."""
import json
import os
import subprocess
import sys
import time
import concurrent.futures as cf

from . import gen, run
from .registry import PROPERTIES

VERIF = gen.VERIF
# VX_EVIDENCE_DIR: seeded-change runs (tools/try_mutant.sh) write their evidence to a scratch directory so that the
# committed evidence/ always describes the unchanged tree
EVID = os.environ.get('VX_EVIDENCE_DIR') or os.path.join(VERIF, 'evidence')
REPLAY_OUT = os.path.join(VERIF, 'replay', 'out')


def repo_state():
    try:
        head = subprocess.run(['git', '-C', gen.REPO, 'rev-parse', 'HEAD'], capture_output=True, text=True).stdout.strip()
        dirty = subprocess.run(['git', '-C', gen.REPO, 'status', '--porcelain', '--', 'src'], capture_output=True, text=True).stdout.strip()
        return head + ('+dirty' if dirty else '')
    except Exception:
        return 'unknown'


FINDER_BOUNDS = {
    'find_rel_pair': 'every operator/modifier combination x every pair of ranges over a 9-character text',
    'find_rel_sets': 'every operator/modifier combination x subject sets of 1-2 (one of 3) of 8 ranges of a 9-character text, in insertion order and sorted, against every such reference range, reference set (also the empty one) - set tests vs. the appendix-A set semantics',
    'find_offset_accept': 'all cursor pairs in -(L+2)..L+2, both alignments, L = 9',
    'find_limit_slice': 'n <= 6 items, begin/end in -8..8',
    'find_related_text': '42 ordered pairs of known selections as a two-member reference set x every operator against the set-level test; every operator over about 40 known selections of a 9-character text; Equals from every known and unknown single selection and from every ordered triple of 6 selections (2 of them unknown)',
    'find_handles_setops': 'every pair of duplicate-free sequences of length <= 4 over 5 handles',
    'find_lookup_promises': 'two histories: an annotation naming the same text, annotation and data twice; protect_text after an annotation that already carries its validation text',
    'find_strip_ids': '0-4 annotations with data, one of them removed or none, strip annotation ids / data ids / both; every id, handle and temporary id looked up',
    'find_reindex_ids': 'every subset of 6 annotations removed, then reindex()',
    'find_store_consistency': '12 annotations over all nine selector kinds, 3 index configurations, every single and double annotation removal, 10 other removals, 6 protect_text histories',
    'find_segmentation': 'every set of <= 3 of 8 selections over a 10-character text, milestone intervals 0/2/3; the whole text and 6 ranges of it',
    'find_id_lookups': '13 histories (no removal, each of 4 annotations, 3 resources, 2 datasets removed by public id, one of each removed by temporary id) x 94 lookup strings x 6 lookup functions; 65538 keys in one dataset; one document with temporary ids loaded alone and merged',
    'find_removal_without_index': '6 configurations (one reverse index switched off each) x 8 removals on the 14-annotation store, survivors compared with the default configuration',
    'find_removal_depth': 'chains of annotations on annotations of length 50, 3000 and 30000; the first / the last of the chain is removed in a child process',
    'find_utf8': '8 texts of 1-4 byte codepoints, 5 milestone intervals, every position and every sub-selection; 6 intervals x 5 selections: iteration, lookup and positions() of a built and of a copied-and-inserted resource compared across intervals',
    'find_relative_offsets': 'every selection x every container over 9 positions x 4 offset modes; every cursor pair against every container, also through textselection() and absolute_offset() on 6 bound and unbound selections of a resource (with extreme cursors); relative_begin / relative_end of every selection in every container; Offset::len of every offset tried',
    'find_subselectors': 'every sequence of 2-3 of 20 simple targets (7 text selections of two resources, annotations without text, with their whole text and with a sub-part of it, resources, dataset, key, data) x Multi/Composite/Directional',
    'find_text_ops': 'every sub-range of 9 texts (<= 8 codepoints of 1-4 bytes, two with characters whose lower-casing changes their length, one with the three forms of the Greek sigma), 11 needles/delimiters, one pattern with an optional capture group, 3 trim sets; find_text, find_text_nocase, split_text, trim_text, find_text_regex (literal patterns) and find_text_sequence (10 fragment lists) vs plain string operations; AnnotationStore::find_text over 3 resources in 3 orders',
    'find_query_semantics': '9 constraints over a 12-annotation store: every ordered pair as a conjunction, every pair as a disjunction, LIMIT 1-3; 3 outer constraints x an (OPTIONAL) sub-query without results; oracle: the single-constraint results; 11 typed value literals as STAMQL text against a scan with the corresponding DataOperator over two datasets with coinciding handle numbers; SELECT KEY / keys() across datasets; both orders of DATA and ANNOTATION in SELECT DATA; 5 ADD queries against the value the direct call stores; SELECT RESOURCE with 4 data constraints (on the text / AS METADATA): every single constraint against a scan, all 16 ordered conjunctions against the intersection; 6 result types x 10 constraints x 10 constraints in a later position: a non-empty intersection must not come back empty',
    'find_data_search': '13 values of five types under two keys x 22 operators: DataValue::test vs the documented semantics; insertion of every value twice (dedup by exact value); find_data by key (also one that does not exist) / value / both vs a full scan; keys()/data() lookups at store level over two datasets with coinciding handle numbers against a scan',
    'find_annotate_failures': '13 failing annotate() calls (missing / unresolvable / out-of-range / nested targets, bad data references, duplicate ids) on a small store; observable state compared before and after',
    'find_include_cycle': '9 sets of files that @include each other or themselves (stores: pairs with and without a working directory, self-include, a cycle of three, a double include; stand-off resource files without text; dataset files), each loaded in a child process',
    'find_load_untrusted': 'STAM CSV: 23 dataset tables and about 530 annotation tables derived from a valid one by emptying or breaking one field (through the readers / a scratch store manifest); 48 malformed or hostile STAM JSON documents through AnnotationStore::from_json_str (no document sized to exhaust memory)',
    'find_index_walk': 'every range over a 9-character text, forward and backward, 11 known selections',
}


def run_kani(harness, timeout=1500):
    """bounded stand-in: one Kani harness of hooks/in_crate.rs inside the real crate; scratch target dir removed afterwards"""
    import shutil
    import tempfile
    target = tempfile.mkdtemp(prefix='vx_kani_', dir=os.environ.get('VX_SCRATCH', '/var/tmp'))
    env = dict(os.environ, STAM_VERIF_DIR=VERIF, CARGO_NET_OFFLINE='true')
    cmd = ['cargo', 'kani', '--manifest-path', os.path.join(gen.REPO, 'Cargo.toml'), '--target-dir', target, '--harness', harness]
    t0 = time.time()
    try:
        p = subprocess.run(cmd, capture_output=True, text=True, env=env, timeout=timeout, cwd=gen.REPO)
        out = p.stdout + p.stderr
    except subprocess.TimeoutExpired:
        out = 'TIMEOUT'
    finally:
        shutil.rmtree(target, ignore_errors=True)
    dt = time.time() - t0
    if 'VERIFICATION:- SUCCESSFUL' in out:
        status = 'passed'
    elif 'VERIFICATION:- FAILED' in out:
        status = 'failed'
    else:
        status = 'undetermined'
    failed = [ln.strip() for ln in out.splitlines() if 'Status: FAILURE' in ln or ln.strip().startswith('Failed Checks')][:6]
    return dict(harness=harness, status=status, time_s=round(dt, 1), cmd=' '.join(cmd), failed_checks=failed, tail=out[-1500:] if status != 'passed' else '')


def decide(prop, tier='quick', rlimit=None):
    t0 = time.time()
    if prop not in PROPERTIES:
        print(f"property {prop} is not claimed by this machinery (see MANIFEST.json not_applicable)")
        return 2
    conf = PROPERTIES[prop]
    rl = rlimit or (30 if tier == 'quick' else 150)
    units = conf['units']
    with cf.ThreadPoolExecutor(max_workers=min(8, len(units))) as ex:
        results = list(ex.map(lambda n: run.check_unit(n, rl), units))
    known, fixed = run.load_known()
    known_for = {k['clause']: k for k in known if k['prop'] == prop}
    infra = []
    violations = []
    known_hits = []
    functions = []
    obligations = 0
    discharged = 0
    trusted = []
    rewrites = []
    fn_report = []
    samples = []
    smt_ms = 0
    cmds = []
    for r in results:
        for i in r.infra:
            infra.append(f"[{r.name}] {i}")
        if r.unit is None:
            continue
        smt_ms += r.smt_ms
        cmds.append(r.cmd)
        mine = [f for f in r.functions if prop in f['props']]
        mine_names = {f['qual'] for f in mine}
        failed_clauses = {}
        failed_fn_safety = {}
        for f in r.failures:
            if f['fn'] not in mine_names:
                continue
            key = f['clause'] or f"safety@{f['src']}"
            kind = 'safety'
            if f['clause'] and 'postcondition' in f['msg']:
                cid = f['clause']
                kind = 'contract'
            elif f['clause'] and ('/hint_' in f['clause'] or '/prologue' in f['clause'] or '/loop' in f['clause']):
                kind = 'proof_step'
                # a proof step (hint assertion / loop invariant) that discharged on the reference tree no longer does
                parts = f['clause'][len(f['fn']) + 1:].split('/') if f['clause'].startswith(f['fn'] + '/') else [f['clause'].split('/')[-1]]
                if len(parts) >= 2 and parts[-1].startswith('hint_'):
                    cid = f"{f['fn']}/{parts[0]}[proof step {parts[-1]}: {f['msg']}]"
                else:
                    cid = f"{f['fn']}/contract[{'/'.join(parts)}: {f['msg']}]"
            elif f['clause'] and 'precondition' in f['msg']:
                cid = f"{f['fn']}/safety[callee precondition {f['clause']}]@{f['src']}"
            else:
                cid = f"{f['fn']}/safety@{f['src']}:{f['msg']}"
            f = dict(f, cid=cid, unit=r.name, kind=kind)
            kf = known_for.get(f['clause']) if f['clause'] else None
            if kf is None:
                kf = known_for.get(f"{f['fn']}/safety")
            if kf is not None:
                known_hits.append((kf, f))
            else:
                violations.append(f)
                failed_clauses.setdefault(f['fn'], set()).add(f['clause'])
        for f in mine:
            if f['external_body']:
                continue
            ens = [c for c in f['clauses'] if c['kind'] == 'ensures' and not c.get('known')]
            n_ob = len(ens) + (1 if f['sha_out'] else 0)   # +1: safety (overflow, bounds, callee preconditions, panics, termination)
            bad = failed_clauses.get(f['qual'], set())
            n_bad = len([c for c in ens if c['id'] in bad]) + (1 if (None in bad or any(b and b not in {c['id'] for c in ens} for b in bad)) else 0)
            obligations += n_ob
            discharged += n_ob - min(n_ob, n_bad)
            tm = None
            for k, v in r.fn_times.items():
                if k.endswith('::' + f['name']):
                    tm = v
            fn_report.append(dict(function=f['qual'], repo=f"{f['file']}:{f['line']}-{f['end_line']}", unit=r.name,
                                  sha256_16_source=f['sha_src'], sha256_16_after_rewrites=f['sha_out'],
                                  ensures=len(ens), ok=(len(bad) == 0), smt_ms=(tm or {}).get('ms')))
            for c in ens[:1]:
                if len(samples) < 12:
                    samples.append(dict(obligation=c['id'], text=c['text']))
        for t in r.unit.trusted:
            if t not in trusted:
                trusted.append(t)
        for t in r.functions:
            if t['external_body'] and prop in t['props']:
                pass
        for rw in r.unit.rewrite_log:
            rewrites.append(f"{rw['rule']} {rw['at']}")
    # --------------------------------------------------------------- bounded stand-ins (thorough tier only)
    bounded = []
    if tier == 'thorough':
        for h in conf.get('kani', []):
            b = run_kani(h['harness'])
            b['bound'] = h['bound']
            b['real_function'] = h['function']
            bounded.append(b)
            if b['status'] == 'failed':
                violations.append(dict(fn=h['function'], clause=None, msg='Kani: assertion/overflow failure within the stated bound', src=None, rendered=b['tail'],
                                       props=[prop], file=h.get('file', ''), line=0, cid=f"{h['function']}/bounded[{h['harness']}]", unit='kani'))
            elif b['status'] == 'undetermined':
                infra.append(f"[kani] harness {h['harness']} did not finish: {b['tail'][-300:]}")
        # dynamic cross-check (labelled bounded, never counted as proved): the executable twins of the contract clauses are run
        # through the real code over their whole small-input space even when every obligation discharged; a failing input
        # found this way is a violation with a concrete input (it covers glue the contracts do not reach, e.g. the removal cascade)
        fnames = conf.get('finders', [])
        if not os.environ.get('VX_NO_WITNESS'):
            from . import witness as wit
            results = wit.run_finders(fnames, regress_prop=prop)
            # regression replays (labelled bounded): the demonstration of every repaired defect of this property that has one is
            # run against the real code; a replay that fails means the repaired defect is back, with the replay as failing input
            rg = results.pop('__regress__', None)
            if rg is not None and rg['files']:
                bounded.append(dict(harness=f"regress::{prop.lower()}_*", kind='regression replays of repaired defects (replay/fixed/*.rs compiled into the real crate)',
                                    bound=f"{len(rg['files'])} replay files, {rg['passed'] + len(rg['failed'])} tests: " + ', '.join(rg['files']),
                                    status='a repaired defect is back' if rg['failed'] else ('passed' if rg['completed'] else 'undetermined'), cmd=rg['cmd']))
                for fl in rg['failed']:
                    violations.append(dict(fn=fl['replay'], clause=None, msg='the replay of a repaired defect fails again', src=None, rendered=fl['output'], props=[prop], file=fl['replay'], line=0,
                                           cid=f"regress/{fl['replay']}::{fl['test']}", unit='regress', kind='contract',
                                           witness=dict(found=True, finder='regression replay', input=dict(replay=fl['replay'], test=fl['test'], output=fl['output'][-800:]), cmd=rg['cmd'])))
                if not rg['failed'] and not rg['completed']:
                    infra.append(f"[regress] the regression replays of {prop} did not run: {rg.get('note', '')[-300:]}")
            for name, res in results.items():
                b = dict(harness=name, kind='exhaustive small-input enumeration through the real code (replay/finder.rs)', bound=FINDER_BOUNDS.get(name, 'see replay/finder.rs'),
                         status='failing input found' if res['found'] else ('passed' if res['completed'] else 'undetermined'), cmd=res['cmd'])
                bounded.append(b)
                for key in res.get('known', []):
                    kf = known_for.get(f"{name}: {key}")
                    if kf is not None:
                        known_hits.append((kf, dict(fn=name, clause=kf['clause'], cid=kf['clause'])))
                    else:   # the finder only prints KNOWN for keys it read from the file; anything else is a new failing input
                        violations.append(dict(fn=name, clause=None, msg='failing input not listed in known_findings.txt', src=None, rendered=key, props=[prop], file='replay/finder.rs', line=0, cid=f"{name}/bounded-dynamic[{key}]", unit='finder', kind='contract'))
                if res['found']:
                    violations.append(dict(fn=name, clause=None, msg='a failing input was found by running the real code', src=None, rendered=json.dumps(res.get('input')),
                                           props=[prop], file='replay/finder.rs', line=0, cid=f"{name}/bounded-dynamic", unit='finder', kind='contract',
                                           witness=dict(found=True, finder=name, input=res.get('input'), cmd=res['cmd'])))
                elif not res['completed']:
                    infra.append(f"[finder] {name} did not finish: {res.get('note', '')[-300:]}")
    else:
        bounded = [dict(harness=h['harness'], bound=h['bound'], real_function=h['function'], status='not run in the quick tier') for h in conf.get('kani', [])]
        bounded += [dict(harness=n, bound=FINDER_BOUNDS.get(n, 'see replay/finder.rs'), status='not run in the quick tier (runs when a proof step fails, and in the thorough tier)') for n in conf.get('finders', [])]
    # --------------------------------------------------------------- output
    os.makedirs(EVID, exist_ok=True)
    rc = 0
    lines = []
    for kf, f in known_hits:
        lines.append(f"KNOWN-FINDING: property={prop} {kf['clause']} :: {kf['text']}")
    # one line per known finding, even if verus reported it several times
    seen = set()
    for ln in lines:
        if ln not in seen:
            print(ln)
            seen.add(ln)
    if infra:
        print(f"INFRASTRUCTURE property={prop}: the check could not decide (exit 2)")
        for i in infra:
            print("  " + i.replace('\n', '\n    '))
        rc = 2
    undecided = []
    if violations:
        os.makedirs(REPLAY_OUT, exist_ok=True)
        seenv = set()
        reported = 0
        for v in violations:
            if v['cid'] in seenv:
                continue
            seenv.add(v['cid'])
            safe = ''.join(ch if ch.isalnum() else '_' for ch in v['cid'])[:120]
            path = os.path.join(REPLAY_OUT, f"{prop}-{safe}.json")
            witness = v.get('witness')
            if witness is None:
                try:
                    from . import witness as wit
                    witness = wit.find(prop, v)
                except Exception as e:  # the finder never decides anything
                    witness = dict(found=False, note=f"witness finder unavailable: {e!r}")
            # A failed PROOF STEP (loop invariant, hint assertion, lemma precondition inside a hint) means the proof no longer
            # goes through; that alone does not show the contract is violated (hoisting a condition out of a loop is enough).
            # Where the obligation has an executable twin and its exhaustive small-input search through the real code finds
            # no failing input, the obligation is reported as undecided (exit 2), not as a violation.  Failed contract
            # clauses (ensures) and safety obligations (overflow, panics, callee preconditions) are always violations.
            if v.get('kind') == 'proof_step' and witness and not witness.get('found') and witness.get('completed'):
                undecided.append((v, witness, path))
                with open(path, 'w') as fh:
                    json.dump(dict(property=prop, undecided_obligation=v['cid'], function=v['fn'], repo_location=f"{v['file']}:{v['line']}",
                                   verifier_message=v['msg'], verifier_output=v['rendered'], unit=v['unit'],
                                   repo_state=repo_state(), witness=witness), fh, indent=1)
                continue
            reported += 1
            with open(path, 'w') as fh:
                json.dump(dict(property=prop, failed_obligation=v['cid'], function=v['fn'], repo_location=f"{v['file']}:{v['line']}",
                               verifier_message=v['msg'], verifier_output=v['rendered'], unit=v['unit'],
                               repo_state=repo_state(), witness=witness,
                               how_to_replay=f"./check {prop} --replay {path}"), fh, indent=1)
            suffix = '' if (witness and witness.get('found')) else ' no-failing-input-found'
            print(f"VIOLATION property={prop} replay={path}{suffix}")
            print(f"  failed obligation: {v['cid']}  ({v['file']}:{v['line']} {v['fn']})")
        if reported:
            rc = 1
        else:
            violations = []
        if undecided:
            if rc == 0:
                rc = 2
            print(f"UNDECIDED property={prop}: {len(undecided)} proof step(s) no longer discharge, and the exhaustive small-input search through the real code found no failing input (exit 2 unless a violation is reported above)")
            for v, w, path in undecided:
                print(f"  undecided obligation: {v['cid']}  (finder {w.get('finder')}; details {path})")
    wall = time.time() - t0
    ev = dict(
        property_id=prop, tier=tier if tier in ('quick', 'thorough') else 'quick', seed=int(os.environ.get('VERIF_SEED', '0') or 0), level='proof',
        coverage=dict(
            obligations=obligations, discharged=discharged,
            checker_cmd=' ; '.join(cmds),
            trusted_base=trusted,
            functions_under_contract=fn_report,
            extraction_rewrites=sorted(set(rewrites)),
            samples=samples,
            solver='Verus 0.2026.09.13 -> Z3 (bundled)', solver_ms=smt_ms, rlimit=rl,
            units=units, repo_state=repo_state(),
            known_findings=[dict(clause=k['clause'], text=k['text']) for k, _ in known_hits],
            bounded=bounded,
            explanation=conf.get('explanation', ''),
            obligation_counting="per function under contract: one obligation per ensures clause plus one for safety (arithmetic overflow, bounds, callee preconditions, unreachable!/panic freedom, termination); counted from the generated file of this run",
        ),
        assumptions=conf.get('assumptions', []) + trusted,
        wall_s=round(wall, 2),
        violations=len({v['cid'] for v in violations}) if rc == 1 else 0,
    )
    if rc == 2:
        ev['coverage']['infrastructure_errors'] = infra[:10] + [f"undecided proof step: {v['cid']}" for v, _, _ in undecided][:10]
    with open(os.path.join(EVID, prop + '.json'), 'w') as fh:
        json.dump(ev, fh, indent=1)
    if rc == 0:
        print(f"OK property={prop} obligations={obligations} discharged={discharged} functions={len(fn_report)} units={','.join(units)} wall={wall:.1f}s")
    return rc


def replay(prop, path):
    with open(path) as fh:
        d = json.load(fh)
    print(json.dumps({k: d[k] for k in d if k != 'verifier_output'}, indent=1))
    print(d.get('verifier_output', ''))
    print("re-running the check on the current tree:")
    return decide(prop or d['property'])

"""U-utf8: TextResource::{utf8byte, utf8byte_to_charpos, create_milestones} (src/resources.rs) against an
abstract codepoint <-> byte map of the text.  UTF-8 decoding itself (char_indices) is trusted; what is
proved is that the two conversions return exactly the entry of that map, for every index content that
satisfies the index invariant - so milestones, shrink-to-fit and existing annotations cannot change answers.
Serves C12 (conditional, see DESIGN.md §7.10)."""
from vx.gen import Unit, Fn
from . import common

P = ['C12']
R = 'src/resources.rs'
T = 'src/textselection.rs'

MODEL = r'''
/// R-err
#[verifier::external_body]
pub fn vx_msg() -> String { String::new() }

// ------------------------------------------------------------------ abstract text model (trusted)
/// byte offset of every codepoint of s, in order (what `char_indices()` yields)
pub uninterp spec fn cps(s: &str) -> Seq<usize>;
/// length of s in bytes (`str::len`)
pub uninterp spec fn blen(s: &str) -> usize;

/// the model is well formed: offsets start at 0, increase strictly and stay below the byte length
pub open spec fn text_ok(s: &str) -> bool {
    (cps(s).len() > 0 ==> cps(s)[0] == 0)
    && (forall|i: int, j: int| 0 <= i < j < cps(s).len() ==> cps(s)[i] < cps(s)[j])
    && (forall|i: int| 0 <= i < cps(s).len() ==> (#[trigger] cps(s)[i]) < blen(s))
    && (cps(s).len() == 0 ==> blen(s) == 0)
}

/// byte offset of codepoint position p (p == number of codepoints: the end of the text)
pub open spec fn cb(s: &str, p: int) -> Option<usize> {
    if 0 <= p < cps(s).len() { Some(cps(s)[p]) } else if p == cps(s).len() { Some(blen(s)) } else { None }
}

/// R-outline: stands for `S.len()` on a &str
#[verifier::external_body]
pub fn vx_blen(s: &str) -> (r: usize)
    ensures r == blen(s),
{ s.len() }

/// R-outline: stands for the items of `S.char_indices().enumerate()`: (codepoint index, byte offset)
/// Trusted: UTF-8 decoding of a valid str.
#[verifier::external_body]
pub fn vx_char_index_pairs(s: &str) -> (r: Vec<(usize, usize)>)
    ensures text_ok(s), r@.len() == cps(s).len(), forall|i: int| 0 <= i < r@.len() ==> (#[trigger] r@[i]) == (i as usize, cps(s)[i]),
{ s.char_indices().enumerate().map(|(c, (b, _))| (c, b)).collect() }

/// R-outline: stands for `&TEXT[B..]`; panics unless B is a character boundary - so that is an obligation.
#[verifier::external_body]
pub fn vx_str_from(text: &String, b: usize) -> (r: &str)
    requires exists|k: int| 0 <= k <= cps(text@str()).len() && cb(text@str(), k) == Some(b),
    ensures
        text_ok(r),
        blen(r) == blen(text@str()) - b,
        forall|k: int| 0 <= k <= cps(text@str()).len() && cb(text@str(), k) == Some(b) ==>
            cps(r).len() == cps(text@str()).len() - k && (forall|i: int| 0 <= i < cps(r).len() ==> (#[trigger] cps(r)[i]) == cps(text@str())[k + i] - b),
{ &text[b..] }
'''

MODEL = MODEL.replace('text@str()', 'vx_as_str(text)')

MODEL2 = r'''
/// ghost: the &str view of a String
pub uninterp spec fn vx_as_str(s: &String) -> &str;

/// stands for `String::as_str` / deref
#[verifier::external_body]
pub fn vx_text(s: &String) -> (r: &str)
    ensures r == vx_as_str(s),
{ s.as_str() }

/// R-outline: stands for `MAP.range((Included(&0), Excluded(&K))).next_back()`: the entry with the greatest key below K
#[verifier::external_body]
pub fn vx_last_below<'a, V>(map: &'a BTreeMap<usize, V>, k: usize) -> (r: Option<(&'a usize, &'a V)>)
    ensures
        r is Some ==> *r.unwrap().0 < k && map@.contains_key(*r.unwrap().0) && map@[*r.unwrap().0] == *r.unwrap().1
                      && forall|j: usize| map@.contains_key(j) && j < k ==> j <= *r.unwrap().0,
        r is None ==> forall|j: usize| map@.contains_key(j) ==> j >= k,
{ map.range((std::ops::Bound::Included(&0), std::ops::Bound::Excluded(&k))).next_back() }
'''

INV = r'''
impl TextResource {
    pub open spec fn txt(&self) -> &str { vx_as_str(&self.text) }
    /// index invariant: every position index entry carries the byte offset of its position, every
    /// byte2charmap entry maps a byte offset to its position
    pub open spec fn idx_ok(&self) -> bool {
        text_ok(self.txt()) && self.textlen == cps(self.txt()).len()
        && (forall|p: usize| self.positionindex.0@.contains_key(p) ==> cb(self.txt(), p as int) == Some((#[trigger] self.positionindex.0@[p]).bytepos))
        && (forall|b: usize| self.byte2charmap@.contains_key(b) ==> cb(self.txt(), (#[trigger] self.byte2charmap@[b]) as int) == Some(b))
    }
}

/// positions are determined by their byte offset (the map is injective)
pub proof fn lemma_cb_injective(s: &str, p: int, q: int)
    requires text_ok(s), cb(s, p) is Some, cb(s, p) == cb(s, q),
    ensures p == q,
{
}
'''


ENTRY = r'''
/// R-outline: `MAP.entry(K).or_insert(V);` / `MAP.entry(K).or_insert_with(|| V);` - inserts only when the key is
/// absent (trusted std semantics of the BTreeMap entry API; V is a pure constructor expression, so building it
/// eagerly is the same)
#[verifier::external_body]
pub fn vx_or_insert<V>(map: &mut BTreeMap<usize, V>, k: usize, v: V)
    ensures final(map)@ == (if old(map)@.contains_key(k) { old(map)@ } else { old(map)@.insert(k, v) }),
{ unimplemented!() }
'''


def build():
    u = Unit('u_utf8', serves=['C12'])
    u.use('use std::collections::BTreeMap;')
    common.target64(u)
    u.item('src/types.rs', 'enum', 'Cursor', keep_derives=['Debug', 'Clone', 'Copy', 'PartialEq'])
    u.item('src/error.rs', 'enum', 'StamError', keep_variants=['CursorOutOfBounds', 'OtherError'], keep_derives=['Debug'])
    u.item(T, 'struct', 'TextSelectionHandle', keep_derives=['Clone', 'Copy'])
    u.item(T, 'struct', 'PositionIndexItem', keep_derives=[],
           rewrites=[('R-smallvec', r'SmallVec<\[\(usize, TextSelectionHandle\); 1\]>', 'Vec<(usize, TextSelectionHandle)>')])
    u.item(T, 'struct', 'PositionIndex', keep_derives=[])
    u.item(R, 'struct', 'TextResource', keep_fields=['text', 'textlen', 'positionindex', 'byte2charmap'], keep_derives=[],
           rewrites=[('R-vis', r'\b(text|textlen|positionindex|byte2charmap):', r'pub \1:')])
    u.trusted_text(MODEL2 + MODEL, 'external_body abstract text model: cps/blen (char_indices, str::len), vx_char_index_pairs, vx_str_from (&text[b..] with the boundary obligation), vx_last_below (BTreeMap::range(..).next_back()), vx_text')
    u.trusted_text(ENTRY, 'external_body vx_or_insert: BTreeMap entry API semantics (or_insert / or_insert_with of a constructor expression)')
    u.spec(INV, 'contracts/u_utf8.py:INV')
    OUTLINES = [
        ('R-outline', r'self\s*\.positionindex\s*\.0\s*\.range\(\(Included\(&0\), Excluded\(&abscursor\)\)\)\s*\.next_back\(\)', 'vx_last_below(&self.positionindex.0, abscursor)'),
        ('R-outline', r'self\s*\.byte2charmap\s*\.range\(\(Included\(&0\), Excluded\(&bytecursor\)\)\)\s*\.next_back\(\)', 'vx_last_below(&self.byte2charmap, bytecursor)'),
        ('R-outline', r'&self\.text\[before_bytepos\.\.\]', 'vx_str_from(&self.text, before_bytepos)'),
        ('R-outline', r'&self\.text\[\*before_bytepos\.\.\]', 'vx_str_from(&self.text, *before_bytepos)'),
        ('R-outline', r'textslice\.len\(\)', 'vx_blen(textslice)'),
        ('R-outline', r'self\.text\(\)\.len\(\)', 'vx_blen(self.text())'),
        ('R-outline', r'for \(charpos, \(bytepos, _\)\) in textslice\.char_indices\(\)\.enumerate\(\) \{',
         'let vx_pairs = vx_char_index_pairs(textslice); for vx_p in vx_it: vx_pairs.iter() { let (charpos, bytepos) = *vx_p;'),
        ('R-outline', r'for \(charpos, \(bytepos, _\)\) in self\.text\(\)\.char_indices\(\)\.enumerate\(\) \{',
         'let vx_pairs = vx_char_index_pairs(self.text()); for vx_p in vx_it: vx_pairs.iter() { let (charpos, bytepos) = *vx_p;'),
    ]

    def pick(names):
        return [o for o in OUTLINES if any(n in o[1] for n in names)]
    u.impl(R, "impl<'store> Text<'store, 'store> for TextResource", [
        Fn('text', props=P, ret='r', rewrites=[('R-outline', r'self\.text\.as_str\(\)', 'vx_text(&self.text)')], ensures=[('txt', 'r == self.txt()')]),
        Fn('utf8byte', props=P, ret='r',
           rewrites=[OUTLINES[0], OUTLINES[2], OUTLINES[4], OUTLINES[5], OUTLINES[6], OUTLINES[7]],
           before=[('let textslice = vx_str_from(&self.text, before_bytepos);', 'proof { assert(cb(self.txt(), *before_pos as int) == Some(before_bytepos)); }')],
           requires=[('index_ok', 'self.idx_ok()')],
           ensures=[('ok_iff_in_text', 'r is Ok <==> abscursor <= self.textlen'),
                    ('exact', 'r is Ok ==> Some(r->Ok_0) == cb(self.txt(), abscursor as int)')],
           loops={0: dict(invariant=[('pairs', 'vx_pairs@.len() == cps(textslice).len() && forall|i: int| 0 <= i < vx_pairs@.len() ==> (#[trigger] vx_pairs@[i]) == (i as usize, cps(textslice)[i])'), ('not_yet', 'abscursor >= *before_pos + vx_it.index@'),
                                     ('ctx', 'self.idx_ok() && text_ok(textslice) && *before_pos < abscursor && cb(self.txt(), *before_pos as int) == Some(before_bytepos) && abscursor != self.textlen'),
                                     ('slice', 'cps(textslice).len() == cps(self.txt()).len() - *before_pos && forall|i: int| 0 <= i < cps(textslice).len() ==> (#[trigger] cps(textslice)[i]) == cps(self.txt())[*before_pos + i] - before_bytepos')]),
                  1: dict(invariant=[('pairs', 'vx_pairs@.len() == cps(self.txt()).len() && forall|i: int| 0 <= i < vx_pairs@.len() ==> (#[trigger] vx_pairs@[i]) == (i as usize, cps(self.txt())[i])'), ('not_yet', 'abscursor >= vx_it.index@'),
                                     ('ctx', 'self.idx_ok() && abscursor != self.textlen')])}),
        Fn('utf8byte_to_charpos', props=P, ret='r',
           rewrites=[OUTLINES[1], OUTLINES[3], OUTLINES[4], OUTLINES[5], OUTLINES[6], OUTLINES[7]],
           before=[('let textslice = vx_str_from(&self.text, *before_bytepos);', '''proof { assert(cb(self.txt(), *before_charpos as int) == Some(*before_bytepos));
                        assert forall|p: int| 0 <= p < *before_charpos implies #[trigger] cb(self.txt(), p) != Some(bytecursor) by { assert(cps(self.txt())[p] < *before_bytepos || (*before_charpos == cps(self.txt()).len() && cps(self.txt())[p] < blen(self.txt()))); } }''')],
           requires=[('index_ok', 'self.idx_ok()')],
           ensures=[('ok_iff_boundary', 'r is Ok <==> exists|p: int| 0 <= p <= self.textlen && cb(self.txt(), p) == Some(bytecursor)'),
                    ('exact', 'r is Ok ==> r->Ok_0 <= self.textlen && cb(self.txt(), r->Ok_0 as int) == Some(bytecursor)')],
           loops={0: dict(invariant=[('pairs', 'vx_pairs@.len() == cps(textslice).len() && forall|i: int| 0 <= i < vx_pairs@.len() ==> (#[trigger] vx_pairs@[i]) == (i as usize, cps(textslice)[i])'), ('not_yet', 'forall|p: int| 0 <= p < *before_charpos + vx_it.index@ ==> #[trigger] cb(self.txt(), p) != Some(bytecursor)'),
                                     ('ctx', 'self.idx_ok() && text_ok(textslice) && *before_bytepos < bytecursor && cb(self.txt(), *before_charpos as int) == Some(*before_bytepos) && *before_charpos <= self.textlen && *before_bytepos + blen(textslice) != bytecursor && blen(textslice) == blen(self.txt()) - *before_bytepos'),
                                     ('slice', 'cps(textslice).len() == cps(self.txt()).len() - *before_charpos && forall|i: int| 0 <= i < cps(textslice).len() ==> (#[trigger] cps(textslice)[i]) == cps(self.txt())[*before_charpos + i] - *before_bytepos')]),
                  1: dict(invariant=[('pairs', 'vx_pairs@.len() == cps(self.txt()).len() && forall|i: int| 0 <= i < vx_pairs@.len() ==> (#[trigger] vx_pairs@[i]) == (i as usize, cps(self.txt())[i])'), ('not_yet', 'forall|p: int| 0 <= p < vx_it.index@ ==> #[trigger] cb(self.txt(), p) != Some(bytecursor)'),
                                     ('ctx', 'self.idx_ok() && blen(self.txt()) != bytecursor')])}),
    ], verus_header="impl<'store> TextResource")
    u.impl(R, 'impl TextResource', [
        Fn('create_milestones', props=P,
           rewrites=[('R-outline', r'for \(charpos, \(bytepos, _\)\) in self\.text\.char_indices\(\)\.enumerate\(\) \{',
                      'let vx_pairs = vx_char_index_pairs(vx_text(&self.text)); for vx_p in vx_it: vx_pairs.iter() { let (charpos, bytepos) = *vx_p;'),
                     ('R-smallvec', r'smallvec!\(\)', 'vec![]'),
                     ('R-outline', r'self\s*\.positionindex\s*\.0\s*\.entry\((\w+)\)\s*\.or_insert_with\(\|\| (PositionIndexItem \{.*?\})\);',
                      r'vx_or_insert(&mut self.positionindex.0, \1, \2);', 'opt'),
                     ('R-outline', r'self\.byte2charmap\.entry\((\w+)\)\.or_insert\((\w+)\);', r'vx_or_insert(&mut self.byte2charmap, \1, \2);', 'opt')],
           requires=[('interval', 'interval > 0'), ('index_ok', 'old(self).idx_ok()')],
           ensures=[('index_ok', 'final(self).idx_ok()'), ('text_frame', 'final(self).text == old(self).text && final(self).textlen == old(self).textlen'),
                    ('existing_entries_untouched', 'forall|p: usize| old(self).positionindex.0@.contains_key(p) ==> #[trigger] final(self).positionindex.0@.contains_key(p) && final(self).positionindex.0@[p] == old(self).positionindex.0@[p]'),
                    ('existing_bytes_untouched', 'forall|b: usize| old(self).byte2charmap@.contains_key(b) ==> #[trigger] final(self).byte2charmap@.contains_key(b) && final(self).byte2charmap@[b] == old(self).byte2charmap@[b]'),
                    ('new_entries_are_bare', 'forall|p: usize| final(self).positionindex.0@.contains_key(p) && !old(self).positionindex.0@.contains_key(p) ==> (#[trigger] final(self).positionindex.0@[p]).begin2end@.len() == 0 && final(self).positionindex.0@[p].end2begin@.len() == 0')],
           loops={0: dict(invariant=[('pairs', 'vx_pairs@.len() == cps(self.txt()).len() && forall|i: int| 0 <= i < vx_pairs@.len() ==> (#[trigger] vx_pairs@[i]) == (i as usize, cps(self.txt())[i])'),
                                     ('ok', 'self.idx_ok() && self.text == old(self).text && self.textlen == old(self).textlen && interval > 0'),
                                     ('keeps', 'forall|p: usize| old(self).positionindex.0@.contains_key(p) ==> #[trigger] self.positionindex.0@.contains_key(p) && self.positionindex.0@[p] == old(self).positionindex.0@[p]'),
                                     ('keeps_bytes', 'forall|b: usize| old(self).byte2charmap@.contains_key(b) ==> #[trigger] self.byte2charmap@.contains_key(b) && self.byte2charmap@[b] == old(self).byte2charmap@[b]'),
                                     ('bare', 'forall|p: usize| self.positionindex.0@.contains_key(p) && !old(self).positionindex.0@.contains_key(p) ==> (#[trigger] self.positionindex.0@[p]).begin2end@.len() == 0 && self.positionindex.0@[p].end2begin@.len() == 0')])}),
    ])
    return u

// replay of the defect repaired by /repo commit e501d58 (C04): copy to /repo/tests/ and run it with cargo test; it fails on the parent commit.
// relative_begin() / relative_end() report cursors for text selections that are not embedded in the
// container (documented: "Returns None if they are not embedded"), and
// ResultTextSelection::relative_end() / relative_offset() do not check that both selections are in
// the same resource (documented: "This also checks whether the textselections pertain to the same
// resource. Returns None otherwise.").
use stam::*;

const MODES: [OffsetMode; 4] = [
    OffsetMode::BeginBegin,
    OffsetMode::BeginEnd,
    OffsetMode::EndBegin,
    OffsetMode::EndEnd,
];

fn store() -> AnnotationStore {
    AnnotationStore::default()
        .with_id("s")
        .with_resource(TextResourceBuilder::new().with_id("r").with_text("héllo wörld"))
        .unwrap()
        .with_resource(TextResourceBuilder::new().with_id("other").with_text("0123456789ABC"))
        .unwrap()
}

#[test]
fn relative_cursors_only_for_embedded_selections() {
    let store = store();
    let resource = store.resource("r").unwrap();
    let len = 11;
    let mut wrong = Vec::new();
    for a in 0..=len {
        for b in a..=len {
            let ts = resource.textselection(&Offset::simple(a, b)).unwrap();
            for c in 0..=len {
                for d in c..=len {
                    let container = resource.textselection(&Offset::simple(c, d)).unwrap();
                    let embedded = c <= a && b <= d;
                    let rb = ts.relative_begin(&container);
                    let re = ts.relative_end(&container);
                    if embedded {
                        assert_eq!(rb, Some(a - c));
                        assert_eq!(re, Some(b - c));
                    } else {
                        if let Some(rb) = rb {
                            wrong.push(format!(
                                "relative_begin of {}..{} in {}..{} = Some({}) (container has length {})",
                                a, b, c, d, rb, d - c
                            ));
                        }
                        if let Some(re) = re {
                            wrong.push(format!(
                                "relative_end of {}..{} in {}..{} = Some({}) (container has length {})",
                                a, b, c, d, re, d - c
                            ));
                        }
                    }
                    // the low-level variants behave the same
                    assert_eq!(ts.inner().relative_begin(container.inner()), rb);
                    assert_eq!(ts.inner().relative_end(container.inner()), re);
                    // (relative_offset is fine within one resource)
                    for mode in MODES {
                        assert_eq!(ts.relative_offset(&container, mode).is_some(), embedded);
                    }
                }
            }
        }
    }
    assert!(
        wrong.is_empty(),
        "relative_begin()/relative_end() must return None when the text selection is not embedded in the container, {} wrong answers, e.g. {:?}",
        wrong.len(),
        &wrong[..wrong.len().min(4)]
    );
}

#[test]
fn relative_begin_example() {
    let store = store();
    let resource = store.resource("r").unwrap();
    let ts = resource.textselection(&Offset::simple(8, 9)).unwrap(); // "r"
    let container = resource.textselection(&Offset::simple(2, 4)).unwrap(); // "ll"
    let cursor = ts.relative_begin(&container);
    // a reported cursor must be resolvable in the container it is relative to
    if let Some(cursor) = cursor {
        assert!(
            container
                .textselection(&Offset::new(Cursor::BeginAligned(cursor), Cursor::EndAligned(0)))
                .is_ok(),
            "relative_begin() of 8..9 in 2..4 reported begin cursor {} which can not be resolved in the container (length 2); expected None because 8..9 is not embedded in 2..4",
            cursor
        );
    }
}

#[test]
fn relative_offset_checks_the_resource() {
    let store = store();
    let resource = store.resource("r").unwrap();
    let other = store.resource("other").unwrap();
    let ts = resource.textselection(&Offset::simple(7, 9)).unwrap(); // "ör" in r
    let foreign = other.textselection(&Offset::simple(6, 13)).unwrap(); // "6789ABC" in other
    // documented and implemented for relative_begin:
    assert_eq!(ts.relative_begin(&foreign), None);
    // documented but not implemented for relative_end and relative_offset:
    assert_eq!(
        ts.relative_end(&foreign),
        None,
        "relative_end() against a container in another resource must be None"
    );
    for mode in MODES {
        let offset = ts.relative_offset(&foreign, mode);
        assert_eq!(
            offset,
            None,
            "relative_offset({:?}) against a container in another resource must be None; the reported offset re-resolves to {:?} instead of {:?}",
            mode,
            offset
                .as_ref()
                .map(|o| foreign.textselection(o).map(|t| t.text().to_string())),
            ts.text()
        );
    }
}

// replay of the defect repaired by /repo commit a073c70 (C01): copy to /repo/tests/ and run `cargo test --test C01_index_config`;
// on the tree before the fix the two counts differ (2 vs 1).
use stam::*;
fn build(cfg: Config) -> AnnotationStore {
    let mut store = AnnotationStore::new(cfg)
        .with_id("s")
        .with_resource(TextResourceBuilder::new().with_id("r").with_text("hello world")).unwrap()
        .with_dataset(AnnotationDataSetBuilder::new().with_id("d")).unwrap();
    store.annotate(AnnotationBuilder::new().with_id("A1")
        .with_target(SelectorBuilder::textselector("r", Offset::simple(0, 5)))
        .with_data("d", "k", "v")).unwrap();
    store.annotate(AnnotationBuilder::new().with_id("A2")
        .with_target(SelectorBuilder::annotationselector("A1", Some(Offset::whole())))
        .with_data("d", "k", "w")).unwrap();
    store
}
fn count(store: &AnnotationStore) -> usize {
    let r = store.resource("r").unwrap();
    let ts = r.textselection(&Offset::simple(0, 5)).unwrap();
    ts.annotations().count()
}
#[test]
fn probe() {
    let a = build(Config::default());
    let b = build(Config::default().with_annotation_annotation_map(false));
    println!("default: {}  aa-off: {}", count(&a), count(&b));
    assert_eq!(count(&a), count(&b));
}

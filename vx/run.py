"""Runs Verus on the generated unit files, maps diagnostics back through the source map,
classifies per property, writes evidence and replay files."""
import importlib
import json
import os
import re
import subprocess
import sys
import time
import concurrent.futures as cf

from . import gen
from .rustsrc import ExtractError

VERIF = gen.VERIF
BUILD = os.path.join(VERIF, 'build')

VERIF_FAIL_MSGS = (
    'postcondition not satisfied',
    'precondition not satisfied',
    'possible arithmetic underflow/overflow',
    'possible division by zero',
    'assertion failed',
    'invariant not satisfied',
    'decreases not satisfied',
    'could not prove termination',
    'index out of bounds',
    'possible bit shift underflow/overflow',
    'loop invariant not satisfied',
    'recommendation not met',
    'unreachable',
    'cannot show',
    'failed',
    'might not',
    'not satisfied',
    'possible',
)
RLIMIT_MSGS = ('Resource limit (rlimit) exceeded', 'rlimit', 'timed out', 'took too long')


def load_unit(name):
    mod = importlib.import_module('contracts.' + name)
    importlib.reload(mod)
    return mod.build()


def run_verus(path, rlimit, multiple_errors=50, extra=()):
    cmd = ['verus', path, '--output-json', '--time', '--error-format=json', '--multiple-errors', str(multiple_errors),
           '--rlimit', str(rlimit), '--triggers-mode', 'silent', '--no-report-long-running'] + list(extra)
    t0 = time.time()
    env = dict(os.environ)
    p = subprocess.run(cmd, stdout=subprocess.PIPE, stderr=subprocess.PIPE, text=True, cwd=os.path.dirname(path), env=env)
    dt = time.time() - t0
    diags = []
    other = []
    for ln in p.stderr.splitlines():
        ln = ln.strip()
        if ln.startswith('{'):
            try:
                diags.append(json.loads(ln))
                continue
            except Exception:
                pass
        if ln:
            other.append(ln)
    try:
        out = json.loads(p.stdout) if p.stdout.strip() else {}
    except Exception:
        out = {}
        other.append('unparsable stdout: ' + p.stdout[:500])
    return dict(cmd=' '.join(cmd), rc=p.returncode, diags=diags, out=out, stderr_other=other, wall=dt)


class UnitResult:
    def __init__(self, name):
        self.name = name
        self.infra = []          # infrastructure problems (exit 2)
        self.failures = []       # dict(fn, clause, msg, src, rendered, props, kind)
        self.functions = []
        self.verified = 0
        self.errors = 0
        self.smt_ms = 0
        self.wall = 0.0
        self.cmd = ''
        self.fn_times = {}
        self.unit = None
        self.canaries_ok = []
        self.path = None


def check_unit(name, rlimit):
    res = UnitResult(name)
    try:
        unit = load_unit(name)
        text, origins = unit.build()
    except ExtractError as e:
        res.infra.append(f"extraction: {e}")
        return res
    except Exception as e:  # contract file bug
        import traceback
        res.infra.append(f"unit build crashed: {e!r}\n{traceback.format_exc()}")
        return res
    res.unit = unit
    os.makedirs(BUILD, exist_ok=True)
    path = os.path.join(BUILD, name + '.rs')
    with open(path, 'w') as f:
        f.write(text)
    res.path = path
    with open(os.path.join(BUILD, name + '.map.json'), 'w') as f:
        json.dump(origins, f)
    r = run_verus(path, rlimit)
    res.wall = r['wall']
    res.cmd = r['cmd']
    vr = r['out'].get('verification-results')
    if vr is None:
        msgs = [d.get('rendered') or d.get('message') for d in r['diags'] if d.get('level') == 'error'][:6]
        res.infra.append("verus did not reach verification (rustc/VIR error): " + '\n'.join(m for m in msgs if m) + '\n'.join(r['stderr_other'][:5]))
        return res
    if vr.get('encountered-vir-error'):
        msgs = [d.get('rendered') or d.get('message') for d in r['diags'] if d.get('level') == 'error'][:6]
        res.infra.append("verus VIR error (unsupported construct / ill-formed contract): " + '\n'.join(m for m in msgs if m))
        return res
    rustc_errs = [d for d in r['diags'] if d.get('level') == 'error' and d.get('code')]
    if not rustc_errs and vr.get('verified', 0) + vr.get('errors', 0) == 0:
        # nothing was verified at all: a syntax error or another front-end failure
        rustc_errs = [d for d in r['diags'] if d.get('level') == 'error' and not (d.get('message') or '').startswith('aborting')]
    if rustc_errs:
        msgs = [d.get('rendered') or d.get('message') for d in rustc_errs][:4]
        res.infra.append("rustc error in the generated unit (unsupported construct, changed signature or ill-formed contract): " + '\n'.join(m for m in msgs if m))
        return res
    res.verified = vr.get('verified', 0)
    res.errors = vr.get('errors', 0)
    try:
        smt = r['out']['times-ms']['smt']
        res.smt_ms = smt.get('smt-run', 0)
        for m in smt.get('smt-run-module-times', []):
            for fb in m.get('function-breakdown', []):
                res.fn_times[fb['function']] = dict(ms=fb.get('time'), rlimit=fb.get('rlimit'), success=fb.get('success'))
    except Exception:
        pass
    # ---- map diagnostics
    fn_ranges = [(f['gen_first'], f['gen_last'], f) for f in unit.functions]
    canary_hit = set()
    for d in r['diags']:
        if d.get('level') != 'error':
            continue
        msg = d.get('message', '')
        if msg.startswith('aborting due to'):
            continue
        spans = d.get('spans', [])
        prim = [s for s in spans if s.get('is_primary')] or spans
        if not prim:
            res.infra.append('diagnostic without span: ' + msg)
            continue
        if any(k in msg for k in RLIMIT_MSGS):
            res.infra.append('resource limit: ' + (d.get('rendered') or msg)[:600])
            continue
        # origin of every span
        span_or = []
        for s in spans:
            ln = s['line_start']
            o = origins[ln - 1] if 0 < ln <= len(origins) else None
            span_or.append((s, o))
        # canary?
        can = [o for s, o in span_or if o and o[0] == 'canary']
        if can:
            canary_hit.add(can[0][1])
            continue
        if not any(k in msg for k in VERIF_FAIL_MSGS):
            res.infra.append('unclassified verus error: ' + (d.get('rendered') or msg)[:800])
            continue
        # which function
        owner = None
        for s in prim + spans:
            for a, b, f in fn_ranges:
                if a <= s['line_start'] <= b:
                    owner = f
                    break
            if owner:
                break
        clause = None
        src = None
        for s, o in span_or:
            if o and o[0] == 'clause' and clause is None:
                # the clause named by this failure: for postconditions the primary span; for
                # preconditions the callee's requires clause
                clause = o[1]
            if o and o[0] == 'src' and src is None and s.get('is_primary'):
                src = f"{o[1]}:{o[2]}"
        if src is None:
            for s, o in span_or:
                if o and o[0] == 'src':
                    src = f"{o[1]}:{o[2]}"
                    break
        # prefer the clause on the primary span if there is one
        for s, o in span_or:
            if s.get('is_primary') and o and o[0] == 'clause':
                clause = o[1]
        if owner is None:
            # failure inside hand written spec/proof text => our proof is broken, not the code
            o = span_or[0][1]
            res.infra.append(f"proof obligation outside any sliced function failed ({o}): " + (d.get('rendered') or msg)[:800])
            continue
        res.failures.append(dict(fn=owner['qual'], clause=clause, msg=msg, src=src, rendered=d.get('rendered', ''),
                                 props=owner['props'], file=owner['file'], line=owner['line']))
    for c in unit.canaries:
        if c in canary_hit:
            res.canaries_ok.append(c)
        else:
            res.infra.append(f"canary {c} verified although it is false: the verifier run is vacuous")
    res.functions = unit.functions
    # sanity: verus must have looked at least at as many functions as we sliced with bodies
    n_body = len([f for f in unit.functions if not f['external_body'] and f['sha_out']])
    if res.verified + res.errors < n_body:
        res.infra.append(f"verus reported {res.verified}+{res.errors} functions, fewer than the {n_body} sliced")
    return res


def load_known():
    known = []
    fixed = []
    p = os.path.join(VERIF, 'known_findings.txt')
    if os.path.exists(p):
        for ln in open(p):
            ln = ln.strip()
            if not ln or ln.startswith('#'):
                continue
            m = re.match(r'known:\s+property=(\S+)\s+clause=("[^"]*"|\S+)\s+::\s*(.*)', ln)
            if m:
                known.append(dict(prop=m.group(1), clause=m.group(2).strip('"'), text=m.group(3)))
                continue
            m = re.match(r'fixed:\s+property=(\S+)\s+(\S+)\s+(.*)', ln)
            if m:
                fixed.append(dict(prop=m.group(1), commit=m.group(2), text=m.group(3)))
    return known, fixed

#![feature(allocator_api)]
use vstd::prelude::*;
use std::marker::PhantomData;
verus! {

pub assume_specification<T, A: std::alloc::Allocator, F: FnMut() -> T> [std::vec::Vec::<T, A>::resize_with] (v: &mut std::vec::Vec<T, A>, new_len: usize, f: F)
    ensures
        final(v)@.len() == new_len,
        forall|i: int| 0 <= i < new_len && i < old(v)@.len() ==> final(v)@[i] == old(v)@[i],
        forall|i: int| old(v)@.len() <= i < new_len ==> f.ensures((), #[trigger] final(v)@[i]);

pub trait Handle: Copy + PartialEq + Sized {
    spec fn view_usize(&self) -> usize;
    fn new(intid: usize) -> (r: Self)
        ensures r.view_usize() == intid; // only for small
    fn as_usize(&self) -> (r: usize)
        ensures r == self.view_usize();
}

pub struct RelationMap<A, B> {
    pub data: Vec<Vec<B>>,
    pub _marker: PhantomData<A>,
}

impl<A, B> RelationMap<A, B>
where
    A: Handle,
    B: Handle,
{
    pub fn insert(&mut self, x: A, y: B)
        requires x.view_usize() < usize::MAX,
        ensures
            final(self).data@.len() == (if x.view_usize() >= old(self).data@.len() { x.view_usize() + 1 } else { old(self).data@.len() as int }),
            final(self).data@[x.view_usize() as int]@ == (if x.view_usize() < old(self).data@.len() { old(self).data@[x.view_usize() as int]@ } else { Seq::<B>::empty() }).push(y),
    {
        if x.as_usize() >= self.data.len() {
            //expand the map
            self.data.resize_with(x.as_usize() + 1, Default::default);
        }
        self.data[x.as_usize()].push(y);
    }

    pub fn remove_all(&mut self, x: A)
        ensures x.view_usize() < final(self).data@.len() ==> final(self).data@[x.view_usize() as int]@.len() == 0,
    {
        if x.as_usize() >= self.data.len() {
            if let Some(values) = self.data.get_mut(x.as_usize()) {
                values.clear();
            }
        }
    }
    pub fn totalcount(&self) -> usize {
        let mut total = 0;
        for v in self.data.iter() {
            total += v.len();
        }
        total
    }
}

} // verus!
fn main() {}

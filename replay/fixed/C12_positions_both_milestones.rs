// replay of the defect repaired by /repo commit 46d3fc9 (C12): copy to /repo/tests/ and run it with cargo test; it fails on the parent commit.
// positions(PositionMode::Both) / positions_in_range(PositionMode::Both, ..) and
// ResultTextSelection::positions(PositionMode::Both) report the internal *milestones* of the
// position index as if a text selection began or ended there. The answer therefore changes with
// Config::milestone_interval, which is documented as a performance-only setting.
use stam::*;

const TEXT: &str = "aé€😀aé€😀aé€😀"; //12 codepoints, 1-4 bytes each

fn build(interval: usize) -> AnnotationStore {
    let mut store = AnnotationStore::new(Config::default().with_milestone_interval(interval))
        .with_resource(TextResourceBuilder::new().with_id("r").with_text(TEXT))
        .unwrap();
    // two annotations: positions in use are exactly 1, 5 and 6
    for (b, e) in [(1usize, 5usize), (5, 6)] {
        store
            .annotate(
                AnnotationBuilder::new()
                    .with_target(SelectorBuilder::textselector("r", Offset::simple(b, e)))
                    .with_data("set", "key", "value"),
            )
            .unwrap();
    }
    store
}

#[test]
fn positions_both_do_not_depend_on_milestone_interval() {
    for interval in [0usize, 1, 2, 3, 7, 100] {
        let store = build(interval);
        let resource = store.resource("r").unwrap();

        let both: Vec<usize> = resource
            .as_ref()
            .positions(PositionMode::Both)
            .copied()
            .collect();
        assert_eq!(
            both,
            vec![1, 5, 6],
            "milestone_interval={}: positions(Both) must list exactly the positions where a text selection begins or ends (1, 5, 6), whatever the milestone interval",
            interval
        );

        let inrange: Vec<usize> = resource
            .as_ref()
            .positions_in_range(PositionMode::Both, 0, 13)
            .copied()
            .collect();
        assert_eq!(
            inrange,
            vec![1, 5, 6],
            "milestone_interval={}: positions_in_range(Both, 0, 13) must list exactly 1, 5, 6",
            interval
        );

        let whole = resource.textselection(&Offset::whole()).unwrap();
        let viats: Vec<usize> = whole.positions(PositionMode::Both).copied().collect();
        assert_eq!(
            viats,
            vec![1, 5, 6],
            "milestone_interval={}: ResultTextSelection::positions(Both) must list exactly 1, 5, 6",
            interval
        );

        // Both must be the union of Begin and End
        let mut union: Vec<usize> = resource
            .as_ref()
            .positions(PositionMode::Begin)
            .chain(resource.as_ref().positions(PositionMode::End))
            .copied()
            .collect();
        union.sort();
        union.dedup();
        assert_eq!(
            both, union,
            "milestone_interval={}: positions(Both) must be the union of positions(Begin) and positions(End)",
            interval
        );
    }
}

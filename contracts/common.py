"""Shared pieces: the Handle trait and the concrete handle types, sliced from /repo."""
from vx.gen import Unit, Fn

HANDLE_TYPES = {
    # name: (file, repr, max)
    'AnnotationHandle': ('src/annotation.rs', 'u32'),
    'AnnotationDataHandle': ('src/annotationdata.rs', 'u32'),
    'AnnotationDataSetHandle': ('src/annotationdataset.rs', 'u16'),
    'DataKeyHandle': ('src/datakey.rs', 'u16'),
    'TextResourceHandle': ('src/resources.rs', 'u32'),
    'AnnotationSubStoreHandle': ('src/substore.rs', 'u16'),
    'TextSelectionHandle': ('src/textselection.rs', 'u32'),
}

STD_TRUSTED = 'trusted/std_specs.rs'


def std_specs(u):
    import os
    from vx.gen import VERIF
    with open(os.path.join(VERIF, STD_TRUSTED)) as f:
        txt = f.read()
    u.trusted_text(txt, 'assume_specification Vec::resize_with, Option::<&T>::copied (trusted/std_specs.rs)')


def target64(u):
    u.trusted_text('global size_of usize == 8;\n', 'assumption: 64-bit target (size_of usize == 8)')


HANDLE_GHOST = '''
    /// ghost view of the handle as an index
    spec fn idx(&self) -> usize;
    /// ghost: largest index the representation can hold
    spec fn hmax() -> usize;
    proof fn hmax_bound()
        ensures Self::hmax() <= 0xFFFF_FFFFusize;
    /// ghost: no handle holds an index beyond what its representation can hold
    proof fn idx_bound(a: Self)
        ensures a.idx() <= Self::hmax();
    /// ghost: handles are plain wrappers, equal iff their index is equal
    proof fn idx_injective(a: Self, b: Self)
        ensures a.idx() == b.idx() <==> a == b;
    /// ghost: the executable `==` on handles is structural equality
    proof fn eq_is_structural()
        ensures <Self as vstd::std_specs::cmp::PartialEqSpec>::obeys_eq_spec(),
                forall|a: Self, b: Self| #[trigger] a.eq_spec(&b) == (a == b);
'''


def handle_trait(u, props, with_reindex=False, reindex_fn=None):
    """trait Handle from src/types.rs with the ghost members every unit shares.
    Hash/DataSize/Debug supertraits are dropped (R-supertrait)."""
    fns = [
        # Handle::new truncates (`as u32`): the contract is total and says so, callers that need
        # `idx() == intid` must establish `intid <= hmax()` themselves
        Fn('new', props=props, ret='r',
           ensures=[('idx', 'intid <= Self::hmax() ==> r.idx() == intid'), ('max', 'r.idx() <= Self::hmax()')]),
        Fn('as_usize', props=props, ret='r',
           ensures=[('idx', 'r == self.idx()'), ('max', 'r <= Self::hmax()')]),
    ]
    if with_reindex:
        fns.append(reindex_fn)
    u.impl('src/types.rs', 'pub trait Handle: Clone + Copy + core::fmt::Debug + PartialEq + Eq + PartialOrd + Ord + Hash + DataSize',
           fns, verus_header='pub trait Handle: Copy + PartialEq + Eq + PartialOrd + Ord + Sized', extra=HANDLE_GHOST)


def handle_impl(u, name, props):
    file, rep = HANDLE_TYPES[name]
    rw = [] if name == 'TextSelectionHandle' else [('R-vis', r'\(\s*u(32|16)\)', r'(pub u\1)')]
    u.item(file, 'struct', name, keep_derives=['Clone', 'Copy', 'PartialOrd', 'Ord'],
           extra_derive=None, rewrites=rw)
    u.trusted_text(f'''
/// R-derive-eq: `#[derive(PartialEq, Eq)]` on {name}, written out; trusted to be structural equality.
impl PartialEq for {name} {{
    #[verifier::external_body]
    fn eq(&self, other: &Self) -> (r: bool)
        ensures r == (*self == *other),
    {{ self.0 == other.0 }}
}}
impl Eq for {name} {{}}
impl vstd::std_specs::cmp::PartialEqSpecImpl for {name} {{
    open spec fn obeys_eq_spec() -> bool {{ true }}
    open spec fn eq_spec(&self, other: &Self) -> bool {{ *self == *other }}
}}
''', f'external_body: derived PartialEq on {name} is structural equality (R-derive-eq)')
    ghost = f'''
    open spec fn idx(&self) -> usize {{ self.0 as usize }}
    open spec fn hmax() -> usize {{ {rep}::MAX as usize }}
    proof fn hmax_bound() {{}}
    proof fn idx_bound(a: Self) {{}}
    proof fn idx_injective(a: Self, b: Self) {{}}
    proof fn eq_is_structural() {{}}
'''
    u.impl(file, f'impl Handle for {name}', [
        Fn('new', props=props, ret='r'),
        Fn('as_usize', props=props, ret='r'),
    ], extra=ghost)


def int_specs(u):
    import os
    from vx.gen import VERIF
    with open(os.path.join(VERIF, 'trusted/int_specs.rs')) as f:
        txt = f.read()
    u.trusted_text(txt, 'assume_specification isize::abs (requires != MIN), isize::unsigned_abs, isize::abs_diff (trusted/int_specs.rs)')

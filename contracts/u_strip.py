"""U-strip: stripping public identifiers (C03: "... for every history extended with ... strip-ids ...").
AnnotationStore::{strip_annotation_ids, strip_data_ids}, AnnotationDataSet::strip_data_ids and the IdMap
constructors they use: afterwards no stripped item carries an id, the id map is empty (nothing but a
temporary id resolves), handles and liveness are untouched and the representation invariant idmap_wf holds."""
from vx.gen import Unit, Fn
from . import common
from . import store_common as sc

P = ['C03']
AS = 'src/annotationstore.rs'
DS = 'src/annotationdataset.rs'
A = 'src/annotation.rs'
AD = 'src/annotationdata.rs'

OPAQUE = r'''
/// R-outline: stands for `OPT.as_deref()` on an Option<String>
#[verifier::external_body]
pub fn vx_as_deref(o: &Option<String>) -> (r: Option<&str>)
    ensures r is Some <==> o is Some, r is Some ==> r.unwrap()@ == o.unwrap()@,
{ o.as_deref() }
/// the executable `==` of the two item types is not interpreted (nothing here branches on it)
impl PartialEq for Annotation {
    #[verifier::external_body]
    fn eq(&self, other: &Self) -> bool { unimplemented!() }
}
impl PartialEq for AnnotationData {
    #[verifier::external_body]
    fn eq(&self, other: &Self) -> bool { unimplemented!() }
}
'''

SPEC = r'''
/// what stripping may do to a store of items: same length, same tombstones, every live item keeps its handle and loses its id
pub open spec fn stripped<T: Storable>(pre: Seq<Option<T>>, post: Seq<Option<T>>) -> bool {
    post.len() == pre.len()
    && (forall|i: int| 0 <= i < pre.len() ==> ((#[trigger] post[i]) is Some <==> pre[i] is Some))
    && (forall|i: int| live(pre, i) ==> (#[trigger] post[i]).unwrap().spec_id() is None && post[i].unwrap().spec_handle() == pre[i].unwrap().spec_handle()
                                          && pre[i].unwrap().same_content(&post[i].unwrap()))
}
/// with an empty id map only temporary ids can resolve
pub proof fn lemma_nothing_resolves<T: Storable>(store: Seq<Option<T>>, temp_ids: bool, id: Seq<char>)
    ensures resolves_to::<T>(store, Map::<Seq<char>, T::HandleType>::empty(), temp_ids, id) is Some ==> is_temp_form::<T>(temp_ids, id),
{}
/// stripping keeps the representation invariant: every item still knows its handle, no item has an id, the map is empty
pub proof fn lemma_stripped_wf<T: Storable>(pre: Seq<Option<T>>, m: Map<Seq<char>, T::HandleType>, post: Seq<Option<T>>)
    requires idmap_wf(pre, Some(m)), stripped(pre, post),
    ensures idmap_wf(post, Some(Map::<Seq<char>, T::HandleType>::empty())),
{
    assert forall|i: int| 0 <= i < post.len() && (#[trigger] post[i]) is Some implies post[i].unwrap().spec_handle() is Some && post[i].unwrap().spec_handle().unwrap().idx() == i by {
        assert(live(pre, i));
        assert(pre[i] is Some);
    }
}
/// a dataset after strip_data_ids
pub open spec fn ds_stripped(pre: AnnotationDataSet, post: AnnotationDataSet) -> bool {
    stripped(pre.data@, post.data@)
    && post.data_idmap.data@ == Map::<Seq<char>, AnnotationDataHandle>::empty()
    && post.data_idmap.resolve_temp_ids == pre.config.strip_temp_ids
    && post.config == pre.config
}
'''

# R-itermut: `for x in V.iter_mut() {` becomes an index loop over the same vector (x = &mut V[i], i counted up first, so that
# `continue` would behave alike); vstd gives slice::IterMut no loop specification
def itermut(var, vec):
    return ('R-itermut', r'for ' + var + r' in ' + vec.replace('.', r'\.') + r'\.iter_mut\(\) \{',
            f'let mut vx_i: usize = 0; while vx_i < {vec}.len() {{ let {var} = &mut {vec}[vx_i]; vx_i += 1;')


def build():
    u = Unit('u_strip', serves=['C03'])
    common.target64(u)
    common.handle_trait(u, P)
    for h in ('AnnotationHandle', 'AnnotationDataHandle'):
        common.handle_impl(u, h, P)
    sc.emit_store_layer(u, P)
    sc.emit_idmap_ctor(u, P)
    u.item(A, 'struct', 'Annotation', keep_fields=['intid', 'id'], keep_derives=[],
           rewrites=[('R-vis', r'\bintid:', 'pub intid:')])
    u.item(AD, 'struct', 'AnnotationData', keep_fields=['intid', 'id'], keep_derives=[])
    u.trusted_text(OPAQUE, 'external_body vx_as_deref (Option<String>::as_deref), uninterpreted PartialEq on Annotation / AnnotationData')
    for ty, f, t in (('Annotation', A, 'Type::Annotation'), ('AnnotationData', AD, 'Type::AnnotationData')):
        u.impl(f, f'impl TypeInfo for {ty}', [Fn('typeinfo', props=P, ret='r')],
               extra=f'\n    open spec fn spec_typeinfo() -> Type {{ {t} }}\n')
    STORABLE = [
        Fn('id', props=P, ret='r', rewrites=[('R-outline', r'self\.id\.as_deref\(\)', 'vx_as_deref(&self.id)')]),
        Fn('handle', props=P, ret='r'),
        Fn('with_handle', props=P, ret='r', sig_rewrites=[('R-mutself', r'\bmut self\b', 'self')],
           rewrites=[('R-mutself', r'\bself\b', 'vx_self')], prologue='let mut vx_self = self;'),
        Fn('carries_id', props=P, ret='r'),
        Fn('merge', props=P, ret='r'),
    ]
    for ty, f, h in (('Annotation', A, 'AnnotationHandle'), ('AnnotationData', AD, 'AnnotationDataHandle')):
        u.impl(f, f'impl Storable for {ty}', STORABLE, extra=f'''
    type HandleType = {h};
    open spec fn spec_handle(&self) -> Option<{h}> {{ self.intid }}
    open spec fn spec_id(&self) -> Option<Seq<char>> {{ match self.id {{ Some(s) => Some(s@), None => None }} }}
    open spec fn spec_carries_id() -> bool {{ true }}
    /// (the projection keeps only handle and id: everything else is outside this unit and is not written by the code under contract)
    open spec fn same_content(&self, other: &Self) -> bool {{ true }}
    proof fn same_content_refl(a: Self) {{}}
    proof fn same_content_trans(a: Self, b: Self, c: Self) {{}}
    #[verifier::external_body]
    fn generate_id(self, idmap: Option<&mut IdMap<{h}>>) -> (r: Self) {{ unimplemented!() }}
''')
    u.trusted.append('external_body Storable::generate_id for Annotation / AnnotationData (not called by the code under contract)')
    u.spec(SPEC.split('/// a dataset after strip_data_ids')[0], 'contracts/u_strip.py:SPEC')
    # ------------------------------------------------------------------ the dataset
    u.item(DS, 'struct', 'AnnotationDataSet', keep_fields=['data', 'data_idmap', 'config'], keep_derives=[],
           rewrites=[('R-vis', r'\b(data|data_idmap):', r'pub \1:')])
    u.impl(DS, 'impl Configurable for AnnotationDataSet', [Fn('config', props=P, ret='r')],
           extra='\n    open spec fn spec_config(&self) -> Config { self.config }\n')
    u.spec('/// a dataset after strip_data_ids' + SPEC.split('/// a dataset after strip_data_ids')[1], 'contracts/u_strip.py:SPEC(ds)')

    def loop(vec, frame):
        V = f'self.{vec}@'
        O = f'old(self).{vec}@'
        return {0: dict(invariant=[
            ('bounds', f'vx_i <= {V}.len() && {V}.len() == {O}.len()'),
            ('tombstones', f'forall|k: int| 0 <= k < {O}.len() ==> ((#[trigger] {V}[k]) is Some <==> {O}[k] is Some)'),
            ('done', f'forall|k: int| 0 <= k < vx_i && {O}[k] is Some ==> (#[trigger] {V}[k]).unwrap().id is None && {V}[k].unwrap().intid == {O}[k].unwrap().intid'),
            ('todo', f'forall|k: int| vx_i <= k < {V}.len() ==> (#[trigger] {V}[k]) == {O}[k]'),
            ('frame', frame),
        ], decreases=f'{V}.len() - vx_i')}

    u.impl(DS, 'impl AnnotationDataSet', [
        Fn('strip_data_ids', props=P, rewrites=[itermut('data', 'self.data')],
           loops=loop('data', 'self.config == old(self).config'),
           ensures=[('stripped', 'ds_stripped(*old(self), *final(self))'),
                    ('nothing_resolves', 'forall|id: Seq<char>| (#[trigger] resolves_to::<AnnotationData>(final(self).data@, final(self).data_idmap.data@, final(self).data_idmap.resolve_temp_ids, id)) is Some ==> is_temp_form::<AnnotationData>(final(self).data_idmap.resolve_temp_ids, id)')]),
    ])
    # ------------------------------------------------------------------ the store
    u.item(AS, 'struct', 'AnnotationStore', keep_fields=['config', 'annotations', 'annotationsets', 'annotation_idmap'], keep_derives=[])
    u.impl(AS, 'impl Configurable for AnnotationStore', [Fn('config', props=P, ret='r')],
           extra='\n    open spec fn spec_config(&self) -> Config { self.config }\n')
    u.impl(AS, 'impl AnnotationStore', [
        Fn('strip_annotation_ids', props=P, rewrites=[itermut('annotation', 'self.annotations')],
           loops=loop('annotations', 'self.config == old(self).config && self.annotationsets@ == old(self).annotationsets@'),
           ensures=[('stripped', 'stripped(old(self).annotations@, final(self).annotations@)'),
                    ('idmap_empty', 'final(self).annotation_idmap.data@ == Map::<Seq<char>, AnnotationHandle>::empty()'),
                    ('temp_ids', 'final(self).annotation_idmap.resolve_temp_ids == old(self).config.strip_temp_ids'),
                    ('nothing_resolves', 'forall|id: Seq<char>| (#[trigger] resolves_to::<Annotation>(final(self).annotations@, final(self).annotation_idmap.data@, final(self).annotation_idmap.resolve_temp_ids, id)) is Some ==> is_temp_form::<Annotation>(final(self).annotation_idmap.resolve_temp_ids, id)'),
                    ('frame', 'final(self).annotationsets@ == old(self).annotationsets@ && final(self).config == old(self).config')]),
        Fn('strip_data_ids', props=P, rewrites=[itermut('annotationset', 'self.annotationsets')],
           loops={0: dict(invariant=[
               ('bounds', 'vx_i <= self.annotationsets@.len() && self.annotationsets@.len() == old(self).annotationsets@.len()'),
               ('tombstones', 'forall|k: int| 0 <= k < old(self).annotationsets@.len() ==> ((#[trigger] self.annotationsets@[k]) is Some <==> old(self).annotationsets@[k] is Some)'),
               ('done', 'forall|k: int| 0 <= k < vx_i && old(self).annotationsets@[k] is Some ==> ds_stripped(old(self).annotationsets@[k].unwrap(), (#[trigger] self.annotationsets@[k]).unwrap())'),
               ('todo', 'forall|k: int| vx_i <= k < self.annotationsets@.len() ==> (#[trigger] self.annotationsets@[k]) == old(self).annotationsets@[k]'),
               ('frame', 'self.config == old(self).config && self.annotations@ == old(self).annotations@ && self.annotation_idmap == old(self).annotation_idmap'),
           ], decreases='self.annotationsets@.len() - vx_i')},
           ensures=[('every_dataset', 'final(self).annotationsets@.len() == old(self).annotationsets@.len() && forall|k: int| 0 <= k < old(self).annotationsets@.len() ==> '
                                      '(match old(self).annotationsets@[k] { Some(d) => (#[trigger] final(self).annotationsets@[k]) is Some && ds_stripped(d, final(self).annotationsets@[k].unwrap()), None => final(self).annotationsets@[k] is None })'),
                    ('frame', 'final(self).annotations@ == old(self).annotations@ && final(self).annotation_idmap == old(self).annotation_idmap && final(self).config == old(self).config')]),
    ])
    return u

// replay of the defect repaired by /repo commit a0b2cc3 (C14): copy to /repo/tests/ and run it with cargo test; it fails on the parent commit.
// AnnotationStore::insert_data() creates the dataset the data item names before it looks at the
// data item itself. When the item is then refused, the call returns an error but the (empty)
// dataset and its identifier stay in the store.
use stam::*;

fn base() -> AnnotationStore {
    AnnotationStore::default()
        .with_id("test")
        .with_resource(
            TextResourceBuilder::new()
                .with_id("testres")
                .with_text("Hello world"),
        )
        .unwrap()
        .with_dataset(
            AnnotationDataSetBuilder::new()
                .with_id("testdataset")
                .with_key_value_id("pos", "noun", "D1"),
        )
        .unwrap()
}

fn datasets(store: &AnnotationStore) -> Vec<String> {
    store
        .datasets()
        .map(|set| format!("{:?} {:?}", set.handle(), set.id()))
        .collect()
}

#[test]
fn refused_data_item_leaves_no_dataset() {
    let mut store = base();
    let before = datasets(&store);

    // refers to existing data "DX" (no key, no value) in a dataset that does not exist: there is no such data
    let result = store.insert_data(
        AnnotationDataBuilder::new()
            .with_dataset("newset".into())
            .with_id("DX".into()),
    );
    assert!(result.is_err(), "there is no data DX: {:?}", result);
    assert!(
        store.dataset("newset").is_none(),
        "insert_data() returned an error: the identifier 'newset' must not have appeared"
    );
    assert_eq!(
        store.datasets_len(),
        1,
        "insert_data() returned an error: no dataset may have been added"
    );
    assert_eq!(
        datasets(&store),
        before,
        "insert_data() returned an error: the datasets must be what they were"
    );

    // the same call with the mistake corrected (key and value given)
    let (set, data) = store
        .insert_data(
            AnnotationDataBuilder::new()
                .with_dataset("newset".into())
                .with_id("DX".into())
                .with_key("pos".into())
                .with_value("verb".into()),
        )
        .expect("valid data item");
    assert_eq!(set, AnnotationDataSetHandle::new(1));
    assert_eq!(data, AnnotationDataHandle::new(0));
    assert_eq!(
        store.annotationdata("newset", "DX").map(|d| d.value().to_string()),
        Some("verb".to_string())
    );
}

#[test]
fn refused_data_item_leaves_no_default_dataset() {
    let mut store = base();
    let before = datasets(&store);

    // no dataset named: the default dataset is implied, which this store does not have (yet)
    let result = store.insert_data(AnnotationDataBuilder::new().with_id("DX".into()));
    assert!(result.is_err(), "there is no data DX: {:?}", result);
    assert_eq!(
        datasets(&store),
        before,
        "insert_data() returned an error: the datasets must be what they were (no default dataset)"
    );

    // a key that is given by a handle that can not exist in a dataset that does not exist
    let result = store.insert_data(
        AnnotationDataBuilder::new()
            .with_dataset("otherset".into())
            .with_key(DataKeyHandle::new(3).into())
            .with_value("x".into()),
    );
    assert!(result.is_err(), "there is no key 3: {:?}", result);
    assert_eq!(
        datasets(&store),
        before,
        "insert_data() returned an error: the datasets must be what they were (no 'otherset')"
    );
}

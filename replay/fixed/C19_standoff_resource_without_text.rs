// replay of the defect repaired by /repo commit ee2dc66 (C19): copy to /repo/tests/ and run it with cargo test; it fails on the parent commit.
// A stand-off TextResource JSON file (referenced via "@include": "x.json") that has no "text" field
// sends the loader into unbounded recursion: the process dies with a stack overflow (SIGABRT).
//
// Because a stack overflow can not be caught, the actual load runs in a child process (this same test binary,
// re-executed with STAM_DEMO_DIR set) and the parent checks how the child ended.
use stam::*;
use std::fs;
use std::path::PathBuf;
use std::process::Command;

fn dir(name: &str) -> PathBuf {
    let d = std::env::temp_dir().join(format!("stam_resdemo_{}_{}", name, std::process::id()));
    let _ = fs::remove_dir_all(&d);
    fs::create_dir_all(&d).unwrap();
    d
}

/// Child part: does nothing unless STAM_DEMO_DIR is set
#[test]
fn child_load() {
    if let Ok(d) = std::env::var("STAM_DEMO_DIR") {
        let filename = format!("{}/s.store.stam.json", d);
        match AnnotationStore::from_file(&filename, Config::default()) {
            Ok(store) => println!("CHILD: loaded, {} resource(s)", store.resources().count()),
            Err(e) => println!("CHILD: error returned: {}", e),
        }
    }
}

fn run_child(d: &PathBuf) -> (bool, String) {
    // (the name of the child test: `child_load` when this file is an integration test, its module path when it is compiled into the crate)
    let child = match module_path!().split_once("::") { Some((_, rest)) => format!("{}::child_load", rest), None => "child_load".to_string() };
    let out = Command::new(std::env::current_exe().unwrap())
        .args([child.as_str(), "--exact", "--nocapture", "--test-threads=1"])
        .env("STAM_DEMO_DIR", d.to_str().unwrap())
        .output()
        .expect("spawning child");
    (
        out.status.success(),
        format!(
            "status: {:?}\nstdout: {}\nstderr: {}",
            out.status,
            String::from_utf8_lossy(&out.stdout),
            String::from_utf8_lossy(&out.stderr)
                .lines()
                .filter(|l| l.contains("overflow") || l.contains("panicked") || l.contains("fatal"))
                .collect::<Vec<_>>()
                .join("\n")
        ),
    )
}

const STORE: &str = r#"{"@type":"AnnotationStore","@id":"S","resources":[{"@type":"TextResource","@include":"r.json"}],"annotationsets":[],"annotations":[]}"#;

#[test]
fn sanity_valid_standoff_resource_loads() {
    let d = dir("valid");
    fs::write(d.join("s.store.stam.json"), STORE).unwrap();
    fs::write(d.join("r.json"), r#"{"@type":"TextResource","@id":"r","text":"Hello world"}"#).unwrap();
    let (ok, report) = run_child(&d);
    assert!(ok && report.contains("CHILD: loaded, 1 resource(s)"), "the valid serialisation must load: {}", report);
}

#[test]
fn standoff_resource_json_with_text_field_deleted() {
    // derived from the valid serialisation above by deleting the "text" field
    let d = dir("notext");
    fs::write(d.join("s.store.stam.json"), STORE).unwrap();
    fs::write(d.join("r.json"), r#"{"@type":"TextResource","@id":"r"}"#).unwrap();
    let (ok, report) = run_child(&d);
    assert!(
        ok,
        "expected: loading a stand-off resource file without \"text\" returns an error (or a store); got: the loading process died\n{}",
        report
    );
    assert!(report.contains("CHILD: error returned"), "expected: an error is returned for a resource without text; got: {}", report);
}

#[test]
fn standoff_resource_json_that_includes_itself() {
    // cyclic reference: the stand-off file refers to itself instead of carrying text
    let d = dir("selfinclude");
    fs::write(d.join("s.store.stam.json"), STORE).unwrap();
    fs::write(d.join("r.json"), r#"{"@type":"TextResource","@id":"r","@include":"r.json"}"#).unwrap();
    let (ok, report) = run_child(&d);
    assert!(
        ok,
        "expected: a stand-off resource file that @includes itself yields an error; got: the loading process died\n{}",
        report
    );
}

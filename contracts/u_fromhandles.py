"""U-fromhandles: FromHandles::next (src/api.rs) - the adapter every reverse lookup of the high-level API goes through
(`annotations()`, `data()`, `textselections()` .. turn lists of handles read from the reverse indices into items).
For any lawful inner iterator of handles it yields exactly the items the handles resolve to, in order, each once, and
skips (only) handles that no longer resolve.  Serves C01 (reverse lookups return exactly what the index lists)."""
from vx.gen import Unit, Fn
from . import common

P = ['C01']
F = 'src/api.rs'

STUBS = r'''
/// minimal stand-in for the Storable trait: only the associated full-handle type is needed here
pub trait Storable { type FullHandleType; }
/// R-opaque: the store and the result items are only passed through
#[verifier::external_body]
pub struct AnnotationStore { _opaque: usize }
#[verifier::external_body]
#[verifier::accept_recursive_types(T)]
pub struct ResultItem<'store, T> { _p: std::marker::PhantomData<&'store T> }
'''

GHOST = '''
    /// ghost: what a handle resolves to in the store this adapter reads from (None: the handle no longer resolves)
    spec fn item_of(&self, handle: T::FullHandleType) -> Option<ResultItem<'store, T>>;
'''

SPEC = r'''
/// the items a sequence of handles resolves to, in order; handles that do not resolve are skipped
pub open spec fn resolved<'store, T: Storable + 'store, S: FullHandleToResultItem<'store, T>>(s: &S, hs: Seq<T::FullHandleType>) -> Seq<ResultItem<'store, T>>
    decreases hs.len()
{
    if hs.len() == 0 { Seq::empty() } else {
        match s.item_of(hs[0]) { Some(x) => seq![x] + resolved(s, hs.skip(1)), None => resolved(s, hs.skip(1)) }
    }
}
/// assumed: what a handle resolves to depends on the store the adapter reads from and on nothing else (in particular not on
/// the position of the inner iterator) - every implementation of get_item in src/api/*.rs is a lookup in `self.store`
#[verifier::external_body]
pub proof fn axiom_item_of_reads_the_store_only<'store, T: Storable + 'store, I: Iterator<Item = T::FullHandleType>>(a: &FromHandles<'store, T, I>, b: &FromHandles<'store, T, I>, handle: T::FullHandleType)
    where FromHandles<'store, T, I>: FullHandleToResultItem<'store, T>
    requires a.store == b.store,
    ensures a.item_of(handle) == b.item_of(handle),
{}
pub proof fn lemma_resolved_frame<'store, T: Storable + 'store, I: Iterator<Item = T::FullHandleType>>(a: &FromHandles<'store, T, I>, b: &FromHandles<'store, T, I>, hs: Seq<T::FullHandleType>)
    where FromHandles<'store, T, I>: FullHandleToResultItem<'store, T>
    requires a.store == b.store,
    ensures resolved(a, hs) == resolved(b, hs),
    decreases hs.len(),
{
    if hs.len() > 0 {
        axiom_item_of_reads_the_store_only(a, b, hs[0]);
        lemma_resolved_frame(a, b, hs.skip(1));
    }
}
/// every item yielded comes from a handle of the inner iterator, and every handle that resolves is yielded (completeness, by construction of `resolved`)
pub proof fn lemma_resolved_sound<'store, T: Storable + 'store, S: FullHandleToResultItem<'store, T>>(s: &S, hs: Seq<T::FullHandleType>, k: int)
    requires 0 <= k < resolved(s, hs).len(),
    ensures exists|j: int| 0 <= j < hs.len() && s.item_of(hs[j]) == Some(resolved(s, hs)[k]),
    decreases hs.len(),
{
    if hs.len() > 0 {
        match s.item_of(hs[0]) {
            Some(x) => {
                if k == 0 { assert(s.item_of(hs[0]) == Some(resolved(s, hs)[0])); }
                else {
                    assert(resolved(s, hs)[k] == resolved(s, hs.skip(1))[k - 1]);
                    lemma_resolved_sound(s, hs.skip(1), k - 1);
                    let j = choose|j: int| 0 <= j < hs.skip(1).len() && s.item_of(hs.skip(1)[j]) == Some(resolved(s, hs.skip(1))[k - 1]);
                    assert(hs.skip(1)[j] == hs[j + 1]);
                }
            },
            None => {
                lemma_resolved_sound(s, hs.skip(1), k);
                let j = choose|j: int| 0 <= j < hs.skip(1).len() && s.item_of(hs.skip(1)[j]) == Some(resolved(s, hs.skip(1))[k]);
                assert(hs.skip(1)[j] == hs[j + 1]);
            },
        }
    }
}
'''

FUTURE = r'''
impl<'store, T: Storable + 'store, I: Iterator<Item = T::FullHandleType>> FromHandles<'store, T, I> where Self: FullHandleToResultItem<'store, T> {
    /// what the adapter will still yield
    #[verifier::prophetic]
    pub open spec fn future(&self) -> Seq<ResultItem<'store, T>> { resolved(self, self.inner.remaining()) }
    #[verifier::prophetic]
    pub open spec fn inv(&self) -> bool { self.inner.obeys_prophetic_iter_laws() && self.inner.decrease() is Some }
}
'''


def build():
    u = Unit('u_fromhandles', serves=['C01'])
    u.use('use std::marker::PhantomData;')
    u.use('use vstd::std_specs::iter::IteratorSpec;')
    common.target64(u)
    u.trusted_text(STUBS, 'minimal Storable stand-in (associated FullHandleType only); AnnotationStore and ResultItem opaque')
    u.impl(F, "pub(crate) trait FullHandleToResultItem<'store, T>", [
        Fn('get_item', props=P, ret='r', decl_only=True,
           ensures=[('resolves', 'r == self.item_of(handle)')]),
    ], verus_header="pub trait FullHandleToResultItem<'store, T: Storable>: Sized", extra=GHOST)
    u.trusted.append('contract assumed: FullHandleToResultItem::get_item returns what the handle resolves to (item_of); axiom: item_of reads the store only (the per-type implementations in src/api/*.rs are lookups in self.store)')
    u.item(F, 'struct', 'FromHandles', keep_derives=[],
           rewrites=[('R-vis', r'\b(inner|store|_marker):', r'pub \1:')])
    u.spec(SPEC, 'contracts/u_fromhandles.py:SPEC')
    u.spec(FUTURE, 'contracts/u_fromhandles.py:FUTURE')
    u.impl(F, "impl<'store, T, I> Iterator for FromHandles<'store, T, I>", [
        Fn('next', props=P, ret='r', sig_rewrites=[('R-inherent', r'Self::Item', "ResultItem<'store, T>")],
           requires=[('inv', 'old(self).inv()')],
           ensures=[('yields_head', 'r == (if old(self).future().len() == 0 { None } else { Some(old(self).future()[0]) })'),
                    ('advances', 'final(self).future() =~= (if old(self).future().len() == 0 { old(self).future() } else { old(self).future().skip(1) })'),
                    ('store_frame', 'final(self).store == old(self).store'),
                    ('inv', 'final(self).inv()')],
           after=[('loop {', 'let ghost vx_pre = *self;'),
                  ('if let Some(full_handle) = self.inner.next() {', '''proof {
                    let rem0 = vx_pre.inner.remaining();
                    assert(rem0.len() > 0 && rem0[0] == full_handle && self.inner.remaining() == rem0.skip(1));
                    lemma_resolved_frame(&vx_pre, &*self, rem0.skip(1));
                    axiom_item_of_reads_the_store_only(&vx_pre, &*self, full_handle);
                }'''),
                  # the branch taken when the inner iterator is exhausted (structural anchor: the `else` of the outer `if let`)
                  (r're:\}\s*\}\s*else\s*\{', '''proof { assert(vx_pre.inner.remaining().len() == 0); assert(self.inner.remaining() =~= Seq::empty()); lemma_resolved_frame(&vx_pre, &*self, self.inner.remaining()); }''')],

           loops={0: dict(invariant=[('inv', 'self.inv()'), ('store', 'self.store == old(self).store'),
                                     ('future', 'self.future() =~= old(self).future()')],
                          decreases='self.inner.decrease().unwrap()')}),
    ], verus_header="impl<'store, T: Storable + 'store, I: Iterator<Item = T::FullHandleType>> FromHandles<'store, T, I> where Self: FullHandleToResultItem<'store, T>")
    return u

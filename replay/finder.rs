// Witness finders: compiled INTO the real stam crate (cfg(test) + --cfg stam_verif) so that private
// functions are reachable.  Each finder enumerates small inputs through the REAL function and evaluates the
// executable form of a contract clause; the first failing input is printed as a line starting with "WITNESS ".
// A finder never decides a check: it only upgrades a reported violation with a concrete failing input.
//
// run:  STAM_VERIF_DIR=/verif RUSTFLAGS="--cfg stam_verif" cargo test --offline --lib verif_hooks::replay::<name> -- --nocapture

use crate::*;
use crate::textselection::*;

fn ts(b: usize, e: usize) -> TextSelection {
    TextSelection { intid: None, begin: b, end: e }
}

fn all_ops() -> Vec<TextSelectionOperator> {
    let mut v = Vec::new();
    for all in [false, true] {
        for negate in [false, true] {
            v.push(TextSelectionOperator::Equals { all, negate });
            v.push(TextSelectionOperator::Overlaps { all, negate });
            v.push(TextSelectionOperator::Embeds { all, negate });
            v.push(TextSelectionOperator::SameBegin { all, negate });
            v.push(TextSelectionOperator::SameEnd { all, negate });
            v.push(TextSelectionOperator::InSet { all, negate });
            v.push(TextSelectionOperator::SameRange { all, negate });
            for limit in [None, Some(0usize), Some(1), Some(2)] {
                v.push(TextSelectionOperator::Embedded { all, negate, limit });
                v.push(TextSelectionOperator::Before { all, negate, limit });
                v.push(TextSelectionOperator::After { all, negate, limit });
            }
            for allow_whitespace in [false, true] {
                v.push(TextSelectionOperator::Precedes { all, negate, allow_whitespace });
                v.push(TextSelectionOperator::Succeeds { all, negate, allow_whitespace });
            }
        }
    }
    v
}

/// the pairwise relation of DESIGN.md appendix A, executable; `gap` = "text between is whitespace"
fn rel_spec(op: &TextSelectionOperator, a: &TextSelection, b: &TextSelection, gap: &dyn Fn(usize, usize) -> bool) -> bool {
    let embeds = |x: &TextSelection, y: &TextSelection| x.begin <= y.begin && y.end <= x.end;
    let (pos, neg) = match op {
        TextSelectionOperator::Equals { negate, .. } | TextSelectionOperator::InSet { negate, .. } => (a == b, *negate),
        TextSelectionOperator::Overlaps { negate, .. } => ((a.begin < b.end && b.begin < a.end) || embeds(a, b) || embeds(b, a), *negate),
        TextSelectionOperator::Embeds { negate, .. } => (embeds(a, b), *negate),
        TextSelectionOperator::Embedded { negate, limit, .. } => (
            embeds(b, a) && limit.map(|k| a.begin - b.begin <= k && b.end - a.end <= k).unwrap_or(true), *negate),
        TextSelectionOperator::Before { negate, limit, .. } => (a.end <= b.begin && limit.map(|k| b.begin - a.end <= k).unwrap_or(true), *negate),
        TextSelectionOperator::After { negate, limit, .. } => (b.end <= a.begin && limit.map(|k| a.begin - b.end <= k).unwrap_or(true), *negate),
        TextSelectionOperator::Precedes { negate, allow_whitespace, .. } => (
            if !allow_whitespace { a.end == b.begin } else { a.end <= b.begin && (a.end == b.begin || (b.begin - a.end <= 10 && gap(a.end, b.begin))) }, *negate),
        TextSelectionOperator::Succeeds { negate, allow_whitespace, .. } => (
            if !allow_whitespace { b.end == a.begin } else { b.end <= a.begin && (b.end == a.begin || (a.begin - b.end <= 10 && gap(b.end, a.begin))) }, *negate),
        TextSelectionOperator::SameBegin { negate, .. } => (a.begin == b.begin, *negate),
        TextSelectionOperator::SameEnd { negate, .. } => (a.end == b.end, *negate),
        TextSelectionOperator::SameRange { negate, .. } => (a.begin == b.begin && a.end == b.end, *negate),
    };
    pos != neg
}

const TEXT: &str = "ab  cd  e";

fn store_with_text() -> AnnotationStore {
    AnnotationStore::default()
        .with_resource(TextResourceBuilder::new().with_id("r").with_text(TEXT))
        .unwrap()
}

/// clause TextSelection::test/equals_spec  (C13)
#[test]
fn find_rel_pair() {
    let store = store_with_text();
    let resource: &TextResource = store.get("r").unwrap();
    let chars: Vec<char> = TEXT.chars().collect();
    let gap = |x: usize, y: usize| chars[x..y].iter().all(|c| c.is_whitespace());
    let n = chars.len();
    for op in all_ops() {
        for ab in 0..=n { for ae in ab..=n { for bb in 0..=n { for be in bb..=n {
            let (a, b) = (ts(ab, ae), ts(bb, be));
            let got = std::panic::catch_unwind(std::panic::AssertUnwindSafe(|| a.test(&op, &b, resource)));
            let want = rel_spec(&op, &a, &b, &gap);
            match got {
                Ok(g) if g == want => {}
                Ok(g) => { println!("WITNESS {{\"clause\":\"TextSelection::test/equals_spec\",\"operator\":\"{:?}\",\"a\":[{},{}],\"b\":[{},{}],\"text\":{:?},\"got\":{},\"spec\":{}}}", op, ab, ae, bb, be, TEXT, g, want); return; }
                Err(_) => { println!("WITNESS {{\"clause\":\"TextSelection::test/safety\",\"operator\":\"{:?}\",\"a\":[{},{}],\"b\":[{},{}],\"text\":{:?},\"got\":\"panic\"}}", op, ab, ae, bb, be, TEXT); return; }
            }
        }}}}
    }
    println!("NO-WITNESS find_rel_pair");
}

/// clause TextResource::textselection_by_offset/accept_iff  (C04)
#[test]
fn find_offset_accept() {
    let store = store_with_text();
    let resource: &TextResource = store.get("r").unwrap();
    let len = TEXT.chars().count() as isize;
    let cursors = |v: isize| -> Vec<Cursor> { let mut c = vec![Cursor::EndAligned(v)]; if v >= 0 { c.push(Cursor::BeginAligned(v as usize)); } c };
    let abs = |c: &Cursor| -> Option<isize> { match c { Cursor::BeginAligned(x) => Some(*x as isize), Cursor::EndAligned(x) => if *x <= 0 && -*x <= len { Some(len + *x) } else { None } } };
    for bv in -(len + 2)..=(len + 2) { for ev in -(len + 2)..=(len + 2) {
        for bc in cursors(bv) { for ec in cursors(ev) {
            let off = Offset::new(bc, ec);
            let want = match (abs(&bc), abs(&ec)) { (Some(b), Some(e)) => 0 <= b && b <= e && e <= len, _ => false };
            let got = std::panic::catch_unwind(std::panic::AssertUnwindSafe(|| resource.textselection_by_offset(&off)));
            let bad = match &got { Ok(Ok(t)) => !want || Some(t.begin() as isize) != abs(&bc) || Some(t.end() as isize) != abs(&ec), Ok(Err(_)) => want, Err(_) => true };
            if bad {
                println!("WITNESS {{\"clause\":\"TextResource::textselection_by_offset/accept_iff\",\"offset\":\"{:?}\",\"textlen\":{},\"accepted\":{},\"should_accept\":{}}}", off, len, matches!(got, Ok(Ok(_))), want);
                return;
            }
        }}
    }}
    println!("NO-WITNESS find_offset_accept");
}

/// clause LimitIter::next/{yields_head,advances}  (C08): LIMIT is a slice
#[test]
fn find_limit_slice() {
    for n in 0..=6isize {
        let items: Vec<isize> = (0..n).collect();
        for b in -(n + 2)..=(n + 2) { for e in -(n + 2)..=(n + 2) {
            let lo = if b >= 0 { b } else { n + b }.clamp(0, n);
            let hi = if e == 0 { n } else if e > 0 { e } else { n + e }.clamp(0, n);
            let want: Vec<isize> = if lo < hi { items[lo as usize..hi as usize].to_vec() } else { vec![] };
            let got = std::panic::catch_unwind(|| (0..n).limit(b, e).collect::<Vec<isize>>());
            if got.as_ref().ok() != Some(&want) {
                println!("WITNESS {{\"clause\":\"LimitIter::next/yields_head\",\"items\":{},\"begin\":{},\"end\":{},\"got\":\"{:?}\",\"slice\":\"{:?}\"}}", n, b, e, got.ok(), want);
                return;
            }
        }}
    }
    println!("NO-WITNESS find_limit_slice");
}

/// clauses init_textseliters/{cover,once} + walk  (C06): the search returns exactly the selections for which test() holds
#[test]
fn find_related_text() {
    let mut store = store_with_text();
    let n = TEXT.chars().count();
    let mut known: Vec<(usize, usize)> = Vec::new();
    for b in 0..=n { for e in b..=n { if (b * 7 + e * 3) % 4 != 1 { known.push((b, e)); } } }
    for (i, (b, e)) in known.iter().enumerate() {
        store.annotate(AnnotationBuilder::new().with_id(format!("A{}", i)).with_target(SelectorBuilder::textselector("r", Offset::simple(*b, *e)))).unwrap();
    }
    let resource = store.resource("r").unwrap();
    for (rb, re) in known.iter() {
        let reference = resource.textselection(&Offset::simple(*rb, *re)).unwrap();
        for op in all_ops() {
            if let TextSelectionOperator::Equals { negate: false, .. } = op { continue; }
            let mut got: Vec<(usize, usize)> = match std::panic::catch_unwind(std::panic::AssertUnwindSafe(|| reference.related_text(op).map(|t| (t.begin(), t.end())).collect::<Vec<_>>())) {
                Ok(v) => v,
                Err(_) => { println!("WITNESS {{\"clause\":\"FindTextSelectionsIter/safety\",\"operator\":\"{:?}\",\"reference\":[{},{}],\"got\":\"panic\"}}", op, rb, re); return; }
            };
            let mut want: Vec<(usize, usize)> = known.iter().filter(|(b, e)| (b, e) != (rb, re))
                .filter(|(b, e)| { let cand = resource.textselection(&Offset::simple(*b, *e)).unwrap(); reference.test(&op, &cand) }).cloned().collect();
            got.sort(); want.sort();
            if got != want {
                println!("WITNESS {{\"clause\":\"init_textseliters/cover\",\"operator\":\"{:?}\",\"text\":{:?},\"reference\":[{},{}],\"search_returns\":\"{:?}\",\"test_holds_for\":\"{:?}\"}}", op, TEXT, rb, re, got, want);
                return;
            }
        }
    }
    println!("NO-WITNESS find_related_text");
}

/// clauses Handles::{union, intersection, add, contains}  (C08): set semantics of the handle collections, every pair of
/// duplicate-free sequences of length <= 4 over 5 handles (sorted and unsorted)
#[test]
fn find_handles_setops() {
    let store = AnnotationStore::default();
    let h = |v: &[u32]| Handles::<Annotation>::from_iter(v.iter().map(|x| AnnotationHandle::new(*x as usize)), &store);
    let n = 5u32;
    let mut seqs: Vec<Vec<u32>> = vec![vec![]];
    let mut frontier: Vec<Vec<u32>> = vec![vec![]];
    for _ in 0..4 {
        let mut next = vec![];
        for s in &frontier { for x in 0..n { if !s.contains(&x) { let mut t = s.clone(); t.push(x); next.push(t); } } }
        seqs.extend(next.clone());
        frontier = next;
    }
    for va in &seqs { for vb in &seqs {
        let b = h(vb);
        let mut a = h(va);
        a.union(&b);
        let got: Vec<u32> = a.iter().map(|x| x.as_usize() as u32).collect();
        let mut g2 = got.clone(); g2.sort(); g2.dedup();
        let mut want: Vec<u32> = va.clone(); for x in vb { if !want.contains(x) { want.push(*x); } } want.sort();
        let member_ok = (0..n).all(|x| a.contains(&AnnotationHandle::new(x as usize)) == want.contains(&x));
        if g2 != want || g2.len() != got.len() || !member_ok {
            println!("WITNESS {{\"clause\":\"Handles::union\",\"self\":\"{:?}\",\"other\":\"{:?}\",\"result\":\"{:?}\",\"sorted_flag\":{},\"contains_agrees\":{}}}", va, vb, got, a.returns_sorted(), member_ok);
            return;
        }
        let mut a = h(va);
        a.intersection(&b);
        let got: Vec<u32> = a.iter().map(|x| x.as_usize() as u32).collect();
        let mut g2 = got.clone(); g2.sort();
        let mut want: Vec<u32> = va.iter().copied().filter(|x| vb.contains(x)).collect(); want.sort();
        let member_ok = (0..n).all(|x| a.contains(&AnnotationHandle::new(x as usize)) == want.contains(&x));
        if g2 != want || !member_ok {
            println!("WITNESS {{\"clause\":\"Handles::intersection\",\"self\":\"{:?}\",\"other\":\"{:?}\",\"result\":\"{:?}\",\"sorted_flag\":{},\"contains_agrees\":{}}}", va, vb, got, a.returns_sorted(), member_ok);
            return;
        }
    }}
    println!("NO-WITNESS find_handles_setops");
}

/// clauses Handle::reindex / ReindexStore::{gaps,reindex}  (C03): after removing any subset of 6 annotations and compacting,
/// every remaining id resolves to the item that carries it, and that item knows its position
#[test]
fn find_reindex_ids() {
    let n = 6usize;
    for mask in 0u32..(1 << n) {
        let mut store = AnnotationStore::default()
            .with_resource(TextResourceBuilder::new().with_id("r").with_text("hello world")).unwrap()
            .with_dataset(AnnotationDataSetBuilder::new().with_id("d")).unwrap();
        for i in 0..n {
            store.annotate(AnnotationBuilder::new().with_id(format!("A{}", i))
                .with_target(SelectorBuilder::textselector("r", Offset::simple(i, i + 1)))
                .with_data("d", "k", "v")).unwrap();
        }
        for i in 0..n {
            if mask & (1 << i) != 0 {
                let h = store.annotation(format!("A{}", i).as_str()).unwrap().handle();
                store.remove(h).unwrap();
            }
        }
        let store = store.reindex();
        for i in 0..n {
            let id = format!("A{}", i);
            let found = store.annotation(id.as_str());
            let removed = mask & (1 << i) != 0;
            let ok = match &found {
                None => removed,
                Some(a) => !removed && a.id() == Some(id.as_str())
                    && <AnnotationStore as StoreFor<Annotation>>::get(&store, a.handle()).map(|x| x.id() == Some(id.as_str())).unwrap_or(false),
            };
            if !ok {
                println!("WITNESS {{\"clause\":\"reindex keeps ids\",\"annotations\":{},\"removed_mask\":{},\"lookup\":\"{}\",\"found_id\":\"{:?}\",\"found_handle\":\"{:?}\"}}", n, mask, id, found.as_ref().map(|a| a.id().map(|s| s.to_string())), found.as_ref().map(|a| a.handle()));
                return;
            }
        }
    }
    println!("NO-WITNESS find_reindex_ids");
}

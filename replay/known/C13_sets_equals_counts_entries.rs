// K7 (C13): replay of the known finding - copy to /repo/tests/ and run with cargo test; it fails on the current tree.
// EQUALS on sets of text selections: "both sets cover the exact same text selections".
// The outcome must not depend on how often a member was added or on whether sort() was
// called before or after the members were added.
use stam::*;

fn setup() -> AnnotationStore {
    let mut store = AnnotationStore::default()
        .with_id("s")
        .with_resource(
            TextResourceBuilder::new()
                .with_id("r")
                .with_text("hello world"),
        )
        .unwrap();
    store
        .annotate(
            AnnotationBuilder::new()
                .with_id("X")
                .with_target(SelectorBuilder::textselector("r", Offset::simple(0, 5)))
                .with_data("set", "k", "v"),
        )
        .unwrap();
    // an annotation whose composite target names the range 0..5 twice
    store
        .annotate(
            AnnotationBuilder::new()
                .with_id("XX")
                .with_target(SelectorBuilder::CompositeSelector(vec![
                    SelectorBuilder::textselector("r", Offset::simple(0, 5)),
                    SelectorBuilder::textselector("r", Offset::simple(0, 5)),
                ]))
                .with_data("set", "k", "v"),
        )
        .unwrap();
    store
}

#[test]
fn equals_on_sets_does_not_depend_on_insertion_history() {
    let store = setup();
    let r = store.resource("r").unwrap();
    let x: TextSelection = *r.textselection(&Offset::simple(0, 5)).unwrap().inner();
    let eq = TextSelectionOperator::equals();

    // the same two add() calls, once before and once after sort()
    let mut a = TextSelectionSet::new(r.handle());
    a.add(x);
    a.add(x);
    a.sort();
    let mut b = TextSelectionSet::new(r.handle());
    b.sort();
    b.add(x);
    b.add(x);
    let (a, b) = (a.as_resultset(&store), b.as_resultset(&store));

    // every other relation agrees that the two are the same
    assert!(a.test_set(&TextSelectionOperator::samerange(), &b));
    assert!(a.test_set(&TextSelectionOperator::inset(), &b));
    assert!(b.test_set(&TextSelectionOperator::inset(), &a));
    assert!(a.test_set(&TextSelectionOperator::embeds(), &b));
    assert!(a.test_set(&TextSelectionOperator::embedded(), &b));

    assert!(
        a.test_set(&eq, &b),
        "{{0..5}} built by add,add,sort EQUALS {{0..5}} built by sort,add,add: both cover exactly 0..5"
    );
    assert!(b.test_set(&eq, &a), "EQUALS is symmetric");
    assert!(
        !a.test_set(&eq.toggle_negate(), &b),
        "NOT EQUALS must not hold for two sets that cover exactly 0..5"
    );
}

#[test]
fn equals_on_annotations_that_cover_the_same_text() {
    let store = setup();
    let x = store.annotation("X").unwrap();
    let xx = store.annotation("XX").unwrap();
    let eq = TextSelectionOperator::equals();
    // both annotations select exactly the text 0..5
    assert!(xx.test(&TextSelectionOperator::samerange(), &x));
    assert!(xx.test(&TextSelectionOperator::inset(), &x));
    assert!(x.test(&TextSelectionOperator::inset(), &xx));
    assert!(
        xx.test(&eq, &x),
        "XX (0..5, named twice) EQUALS X (0..5): they cover the exact same text selections"
    );
    assert!(x.test(&eq, &xx), "EQUALS is symmetric");
}

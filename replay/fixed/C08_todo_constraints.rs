// replay of the defect repaired by /repo commit 815e2a3 (C08): copy to /repo/tests/ and run it with cargo test; it fails on the parent commit.
use stam::*;
#[test]
fn constraints_that_are_not_implemented_are_refused_not_a_panic() {
    let mut store = AnnotationStore::default()
        .with_resource(TextResourceBuilder::new().with_id("r").with_text("aa bb cc dd")).unwrap();
    store.annotate(AnnotationBuilder::new().with_id("A1").with_target(SelectorBuilder::textselector("r", Offset::simple(0, 2))).with_data("s", "k", "v")).unwrap();
    for q in ["SELECT TEXT ?t WHERE [ TEXT \"cc\" OR TEXT \"dd\" ];", "SELECT ANNOTATION ?a WHERE TEXT AS REGEX \"c+\";"] {
        let parsed: Result<Query, _> = q.try_into();
        if let Ok(query) = parsed {
            let r = std::panic::catch_unwind(std::panic::AssertUnwindSafe(|| store.query(query).map(|it| it.count())));
            assert!(r.is_ok(), "query {:?} panicked", q);
        }
    }
}

// replay of the defect repaired by /repo commit 2593b15 (C13): copy to /repo/tests/ and run it with cargo test; it fails on the parent commit.
// EQUALS / INSET between two text selections with the same begin and end must hold,
// whether or not one of them happens to carry a handle (is "bound").
use stam::*;

fn setup() -> AnnotationStore {
    let mut store = AnnotationStore::default()
        .with_id("s")
        .with_resource(
            TextResourceBuilder::new()
                .with_id("r")
                .with_text("hello world"),
        )
        .unwrap();
    store
        .annotate(
            AnnotationBuilder::new()
                .with_id("A")
                .with_target(SelectorBuilder::textselector("r", Offset::simple(0, 5)))
                .with_data("set", "k", "v"),
        )
        .unwrap();
    store
}

#[test]
fn equals_does_not_depend_on_the_handle() {
    let store = setup();
    let r = store.resource("r").unwrap();
    let a = store.annotation("A").unwrap();

    // the text selection 0..5 is known to the store: it carries a handle
    let bound = r.textselection(&Offset::simple(0, 5)).unwrap();
    assert!(bound.handle().is_some());
    // the very same range, as returned by the (public) low-level call that never binds
    let raw: TextSelection = bound
        .inner()
        .textselection_by_offset(&Offset::whole())
        .unwrap();
    assert_eq!((raw.begin(), raw.end()), (0, 5));
    let unbound = ResultTextSelection::Unbound(&store, r.as_ref(), raw);

    let eq = TextSelectionOperator::equals();
    // sanity: all other relations see the two as the same range
    assert!(bound.test(&TextSelectionOperator::samerange(), &unbound));
    assert!(bound.test(&TextSelectionOperator::embeds(), &unbound));
    assert!(bound.test(&TextSelectionOperator::embedded(), &unbound));
    // and the search finds the bound one from the unbound one with EQUALS
    assert_eq!(unbound.related_text(eq).count(), 1);

    assert!(
        bound.test(&eq, &unbound),
        "0..5 EQUALS 0..5 must hold (same begin, same end), but the test returned false"
    );
    assert!(
        unbound.test(&eq, &bound),
        "EQUALS must be symmetric and hold for 0..5 vs 0..5"
    );
    assert!(
        !bound.test(&eq.toggle_negate(), &unbound),
        "NOT EQUALS must be the complement: 0..5 vs 0..5 are equal"
    );
    assert!(
        bound.test(&TextSelectionOperator::inset(), &unbound),
        "0..5 is a member of {{0..5}}"
    );

    // same through sets and through the annotation
    let mut set = TextSelectionSet::new(r.handle());
    set.add(raw);
    let set = set.as_resultset(&store);
    assert!(
        bound.test_set(&eq, &set),
        "0..5 EQUALS {{0..5}} must hold"
    );
    assert!(
        a.test_textselectionset(&eq, &set),
        "annotation on 0..5 EQUALS {{0..5}} must hold"
    );
    assert!(
        a.test_textselection(&eq, &unbound),
        "annotation on 0..5 EQUALS 0..5 must hold"
    );

    // ordering is consistent with equality
    assert_eq!(bound.partial_cmp(&unbound), Some(std::cmp::Ordering::Equal));
    assert!(
        bound == unbound,
        "two text selections of one resource that compare as Ordering::Equal must be =="
    );
}

#[test]
fn equals_does_not_depend_on_history() {
    // a set is taken while the range is not yet annotated, then the range gets annotated
    let mut store = setup();
    let set: TextSelectionSet = {
        let r = store.resource("r").unwrap();
        let ts = r.textselection(&Offset::simple(6, 11)).unwrap();
        assert!(ts.handle().is_none());
        ts.into()
    };
    store
        .annotate(
            AnnotationBuilder::new()
                .with_id("B")
                .with_target(SelectorBuilder::textselector("r", Offset::simple(6, 11)))
                .with_data("set", "k", "v"),
        )
        .unwrap();
    let b = store.annotation("B").unwrap();
    let set = set.as_resultset(&store);
    assert!(b.test_textselectionset(&TextSelectionOperator::samerange(), &set));
    assert!(
        b.test_textselectionset(&TextSelectionOperator::equals(), &set),
        "annotation on 6..11 EQUALS {{6..11}} must hold"
    );
}

// replay of the defect repaired by /repo commit 4ab89d3 (C07): copy to /repo/tests/ and run it with cargo test; it fails on the parent commit.
use stam::*;
use std::panic::{catch_unwind, AssertUnwindSafe};

#[test]
fn segmentation_in_range_beyond_the_text_does_not_panic() {
    let mut store = AnnotationStore::new(Config::default())
        .with_id("s")
        .with_resource(TextResourceBuilder::new().with_id("r").with_text("aé€𝄞"))
        .unwrap()
        .with_dataset(AnnotationDataSetBuilder::new().with_id("d"))
        .unwrap();
    store
        .annotate(
            AnnotationBuilder::new()
                .with_id("a")
                .with_target(SelectorBuilder::textselector("r", Offset::simple(1, 3)))
                .with_data("d", "k", "v"),
        )
        .unwrap();
    let resource = store.resource("r").unwrap();
    assert_eq!(resource.textlen(), 4);

    // reference: the whole text
    let whole: Vec<(usize, usize)> = resource
        .segmentation()
        .map(|ts| (ts.begin(), ts.end()))
        .collect();
    assert_eq!(whole, vec![(0, 1), (1, 3), (3, 4)]);

    // an end position one beyond the text (textselections_in_range() and positions_in_range() accept this)
    let result = catch_unwind(AssertUnwindSafe(|| {
        resource
            .segmentation_in_range(0, 5)
            .map(|ts| (ts.begin(), ts.end()))
            .collect::<Vec<_>>()
    }));
    assert!(
        result.is_ok(),
        "segmentation_in_range(0, 5) on a text of 4 characters must not panic: a position beyond the text is to be refused or clipped"
    );
    assert_eq!(
        result.unwrap(),
        whole,
        "segmentation_in_range() with an end beyond the text covers the text up to its end"
    );

    // a range that lies beyond the text entirely
    let result = catch_unwind(AssertUnwindSafe(|| {
        resource.segmentation_in_range(7, 9).count()
    }));
    assert!(
        result.is_ok(),
        "segmentation_in_range(7, 9) on a text of 4 characters must not panic"
    );
    assert_eq!(result.unwrap(), 0, "there is nothing to segment beyond the text");
}

// replay of the defect repaired by /repo commit 1b38e17 (C07): copy to /repo/tests/ and run it with cargo test; it fails on the parent commit.
use stam::*;
#[test]
fn regex_search_without_expressions_finds_nothing() {
    let store = AnnotationStore::default().with_resource(TextResourceBuilder::new().with_id("r").with_text("hello world")).unwrap();
    let res = store.resource("r").unwrap();
    let n = res.find_text_regex(&[], None, true).expect("no expressions is not an error").count();
    assert_eq!(n, 0);
}

// Trusted specifications of std functions that vstd does not cover (assume_specification).
// Every entry is listed in the evidence under coverage.trusted_base.

pub assume_specification<T, A: std::alloc::Allocator, F: FnMut() -> T> [std::vec::Vec::<T, A>::resize_with] (v: &mut std::vec::Vec<T, A>, new_len: usize, f: F)
    ensures
        final(v)@.len() == new_len,
        forall|i: int| 0 <= i < new_len && i < old(v)@.len() ==> final(v)@[i] == old(v)@[i],
        forall|i: int| old(v)@.len() <= i < new_len ==> f.ensures((), #[trigger] final(v)@[i]);

pub assume_specification<'a, T> [std::option::Option::<&T>::copied] (o: std::option::Option<&'a T>) -> (r: std::option::Option<T>)
    where T: std::marker::Copy,
    ensures r == (match o { Some(v) => Some(*v), None => None });

// replay of the defect repaired by /repo commit 9fc07dd (C09): copy to /repo/tests/ and run it with cargo test; it fails on the parent commit.
// Query::parse() panics with "byte index 1 is not a char boundary" when a `[ .. ]` block is followed by
// whitespace that is more than one byte long in UTF-8 (e.g. a no-break space U+00A0, which is what
// copy-pasting a query from a web page or a word processor gives you) and then a `{ sub-query }`.
// With an ordinary space in that position there is no panic, but the valid query is refused
// ("Missing '}' to close subquery block"): the parser removes the space instead of the `{`.
//
// Expected: parsing an arbitrary string returns Ok(query) or Err(StamError::QuerySyntaxError), it never
// panics; `[ .. ] { SELECT .. }` parses just like `[ .. ]; { SELECT .. }` and `[ .. ]{ SELECT .. }` do.
use stam::*;

fn parse(q: &'static str) -> Result<Result<Query<'static>, String>, ()> {
    std::panic::catch_unwind(|| {
        let r: Result<Query, StamError> = q.try_into();
        r.map_err(|e| format!("{}", e))
    })
    .map_err(|_| ())
}

#[test]
fn reference_forms_parse() {
    // these two spellings work on the unchanged library
    for q in [
        "SELECT ANNOTATION ?a WHERE [ ID \"x\" OR ID \"y\" ]; { SELECT ANNOTATION ?b WHERE ANNOTATION ?a; }",
        "SELECT ANNOTATION ?a WHERE [ ID \"x\" OR ID \"y\" ]{ SELECT ANNOTATION ?b WHERE ANNOTATION ?a; }",
    ] {
        let r = parse(q).expect("no panic");
        let query = r.expect("reference query must parse");
        assert_eq!(query.subqueries_len(), 1);
    }
}

#[test]
fn multibyte_whitespace_after_union_does_not_panic() {
    for q in [
        "SELECT ANNOTATION ?a WHERE [ ID \"x\" OR ID \"y\" ]\u{a0}{ SELECT ANNOTATION ?b WHERE ANNOTATION ?a; }",
        "SELECT ANNOTATION ?a WHERE [ ID \"x\" ]\u{2003}{ SELECT ANNOTATION ?b WHERE ANNOTATION ?a; }",
        "SELECT ANNOTATION ?a WHERE [ ID \"x\" ]\u{3000}{",
    ] {
        let outcome = parse(q);
        assert!(
            outcome.is_ok(),
            "Query::try_from({:?}) must return Ok or Err(QuerySyntaxError), but it panicked (byte index 1 is not a char boundary)",
            q
        );
    }
}

#[test]
fn space_between_union_and_subquery_is_accepted() {
    let q = "SELECT ANNOTATION ?a WHERE [ ID \"x\" OR ID \"y\" ] { SELECT ANNOTATION ?b WHERE ANNOTATION ?a; }";
    let r = parse(q).expect("no panic");
    assert!(
        r.is_ok(),
        "a space between ']' and '{{' must not make the query invalid, got error: {:?}",
        r.err()
    );
    assert_eq!(r.unwrap().subqueries_len(), 1, "the sub-query must be found");
}

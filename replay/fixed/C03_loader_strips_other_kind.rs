// replay of the defect repaired by /repo commit 1d25b72 (C03): copy to /repo/tests/ and run it with cargo test; it fails on the parent commit.
// The STAM JSON loader takes the temporary id of ANY kind for a temporary id of the thing it is loading:
// an annotation whose public identifier is "!R2" (the temporary-id form of a resource, not of an annotation)
// loses its identifier and the store is padded with empty slots.
// Lookups (StoreFor::resolve_id) do check the kind letter since commit 24fc17e, the two loaders do not.
use stam::*;

const JSON: &str = r#"{"@type":"AnnotationStore","@id":"s",
    "resources":[{"@type":"TextResource","@id":"r0","text":"Hello world"}],
    "annotationsets":[{"@type":"AnnotationDataSet","@id":"set0",
        "keys":[{"@type":"DataKey","@id":"k0"}],
        "data":[{"@type":"AnnotationData","@id":"!A3","key":"k0","value":{"@type":"String","value":"v0"}}]}],
    "annotations":[{"@type":"Annotation","@id":"!R2",
        "target":{"@type":"ResourceSelector","resource":"r0"},
        "data":[{"@type":"AnnotationData","@id":"!A3","set":"set0"}]}]}"#;

#[test]
fn annotation_keeps_public_id_that_is_a_temporary_id_of_another_kind() {
    let store = AnnotationStore::from_json_str(JSON, Config::default()).expect("document must load");
    assert_eq!(store.annotations().count(), 1, "one annotation was loaded");
    let annotation = store.annotations().next().unwrap();
    assert_eq!(
        annotation.id(),
        Some("!R2"),
        "\"!R2\" is not a temporary id of an annotation (those are \"!A<n>\"): it is the annotation's public identifier and must be kept"
    );
    assert_eq!(
        store.annotation("!R2").map(|a| a.handle()),
        Some(annotation.handle()),
        "the identifier \"!R2\" must resolve to the annotation that carries it"
    );
    assert_eq!(
        store.annotations_len(),
        1,
        "the store must not be padded with empty slots because of a resource-style temporary id on an annotation"
    );
}

#[test]
fn data_keeps_public_id_that_is_a_temporary_id_of_another_kind() {
    let store = AnnotationStore::from_json_str(JSON, Config::default()).expect("document must load");
    let set = store.dataset("set0").expect("dataset");
    assert_eq!(set.data().count(), 1, "one data item was loaded");
    let data = set.data().next().unwrap();
    assert_eq!(
        data.id(),
        Some("!A3"),
        "\"!A3\" is not a temporary id of a data item (those are \"!D<n>\"): it is the public identifier and must be kept"
    );
    assert_eq!(
        store.annotationdata("set0", "!A3").map(|d| d.handle()),
        Some(data.handle()),
        "the identifier \"!A3\" must resolve to the data item that carries it"
    );
    assert_eq!(set.as_ref().data_len(), 1, "the dataset must not be padded with empty slots");
}

// observation (not a finding of a check, DESIGN.md section 8): AnnotationStore::reindex does not remap annotation targets and four reverse indices.
// copy to /repo/tests/ and run it with cargo test: it fails on the current tree.
use stam::*;
#[test]
fn probe() {
    let mut store = AnnotationStore::default()
        .with_resource(TextResourceBuilder::new().with_id("r").with_text("hello world")).unwrap()
        .with_dataset(AnnotationDataSetBuilder::new().with_id("d")).unwrap();
    for (i, id) in ["A0", "A1", "A2", "A3"].iter().enumerate() {
        store.annotate(AnnotationBuilder::new().with_id(*id)
            .with_target(SelectorBuilder::textselector("r", Offset::simple(i, i + 1)))
            .with_data("d", "k", *id)).unwrap();
    }
    store.annotate(AnnotationBuilder::new().with_id("B")
            .with_target(SelectorBuilder::annotationselector("A3", None))
            .with_data("d", "k", "B")).unwrap();
    let h1 = store.annotation("A1").unwrap().handle();
    store.remove(h1).unwrap();
    let store = store.reindex();
    let mut bad = 0;
    for id in ["A0", "A2", "A3", "B"] {
        let key = store.key("d", "k").unwrap();
        let data = key.data().filter(|d| d.value() == &DataValue::from(id)).next().unwrap();
        let anns: Vec<_> = data.annotations().map(|a| a.id().map(|s| s.to_string())).collect();
        println!("data {} -> annotations {:?}", id, anns);
        if anns != vec![Some(id.to_string())] { bad += 1; }
    }
    let b = store.annotation("B").unwrap();
    let targets: Vec<_> = b.annotations_in_targets(AnnotationDepth::One).map(|a| a.id().map(|s| s.to_string())).collect();
    println!("B targets {:?}", targets);
    if targets != vec![Some("A3".to_string())] { bad += 1; }
    let a3 = store.annotation("A3").unwrap();
    let pointing: Vec<_> = a3.annotations().map(|a| a.id().map(|s| s.to_string())).collect();
    println!("annotations on A3: {:?}", pointing);
    if pointing != vec![Some("B".to_string())] { bad += 1; }
    assert_eq!(bad, 0);
}

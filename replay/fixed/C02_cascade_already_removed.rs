// replay of the defect repaired by /repo commit b981b64 (C02): copy to /repo/tests/ and run it with cargo test; before the fix two of the three tests fail.
use stam::*;
fn build() -> AnnotationStore {
    let mut store = AnnotationStore::default()
        .with_resource(TextResourceBuilder::new().with_id("r0").with_text("hello world")).unwrap()
        .with_dataset(AnnotationDataSetBuilder::new().with_id("d0")).unwrap();
    store.annotate(AnnotationBuilder::new().with_id("A1").with_target(SelectorBuilder::textselector("r0", Offset::simple(0, 5))).with_data("d0", "k0", "x")).unwrap();
    // A2 is an annotation on A1 and uses the same data item
    store.annotate(AnnotationBuilder::new().with_id("A2").with_target(SelectorBuilder::annotationselector("A1", None)).with_data("d0", "k0", "x")).unwrap();
    store.annotate(AnnotationBuilder::new().with_id("A3").with_target(SelectorBuilder::textselector("r0", Offset::simple(6, 11))).with_data("d0", "k0", "y")).unwrap();
    store
}
#[test]
fn remove_data_strict_with_dependent_annotation() {
    let mut store = build();
    let s = store.dataset("d0").unwrap().handle();
    let d = store.dataset("d0").unwrap().key("k0").unwrap().data().next().unwrap().handle();
    let r = store.remove_data(s, d, true);
    println!("remove_data strict -> {:?}; annotations left: {:?}", r, store.annotations().map(|a| a.id().unwrap().to_string()).collect::<Vec<_>>());
    assert!(r.is_ok());
    assert_eq!(store.annotations().map(|a| a.id().unwrap().to_string()).collect::<Vec<_>>(), vec!["A3".to_string()]);
    assert_eq!(store.dataset("d0").unwrap().data().count(), 1);
}
#[test]
fn remove_resource_with_dependent_annotation() {
    let mut store = build();
    let r = store.remove_resource("r0");
    println!("remove_resource -> {:?}; annotations left: {}", r, store.annotations().count());
    assert!(r.is_ok());
    assert_eq!(store.annotations().count(), 0);
    assert!(store.resource("r0").is_none());
}
#[test]
fn remove_dataset_with_dependent_annotation() {
    let mut store = build();
    let r = store.remove_dataset("d0");
    println!("remove_dataset -> {:?}; annotations left: {}", r, store.annotations().count());
    assert!(r.is_ok());
    assert_eq!(store.annotations().count(), 0);
}

// replay of the defect repaired by /repo commit ea702a8 (C03): copy to /repo/tests/ and run it with cargo test; before the fix "A2" resolves to the item "A3".
use stam::*;
#[test]
fn probe() {
    let mut store = AnnotationStore::default()
        .with_resource(TextResourceBuilder::new().with_id("r").with_text("hello world")).unwrap()
        .with_dataset(AnnotationDataSetBuilder::new().with_id("d")).unwrap();
    for (i, id) in ["A0", "A1", "A2", "A3"].iter().enumerate() {
        store.annotate(AnnotationBuilder::new().with_id(*id)
            .with_target(SelectorBuilder::textselector("r", Offset::simple(i, i + 1)))
            .with_data("d", "k", *id)).unwrap();
    }
    let h1 = store.annotation("A1").unwrap().handle();
    store.remove(h1).unwrap();
    let store = store.reindex();
    for id in ["A0", "A2", "A3"] {
        match store.annotation(id) {
            Some(a) => println!("{} -> handle {:?}, id of item found: {:?}, text {:?}", id, a.handle(), a.id(), a.text().collect::<Vec<_>>()),
            None => println!("{} -> not found", id),
        }
    }
    assert_eq!(store.annotation("A2").unwrap().id(), Some("A2"));
    assert_eq!(store.annotation("A3").unwrap().id(), Some("A3"));
}

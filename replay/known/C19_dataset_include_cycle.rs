// known finding K3 (C19), recorded, not repaired: copy to /repo/tests/ and run it with cargo test; it fails (the child process that loads
// the files is aborted by a stack overflow).
// An AnnotationDataSet JSON file whose "@include" points (directly or through another file) back to itself
// sends the loader into unbounded recursion: the process dies with a stack overflow (SIGABRT).
//
// Because a stack overflow can not be caught, the actual load runs in a child process (this same test binary,
// re-executed with STAM_DEMO_DIR set) and the parent checks how the child ended.
use stam::*;
use std::fs;
use std::path::PathBuf;
use std::process::Command;

fn dir(name: &str) -> PathBuf {
    let d = std::env::temp_dir().join(format!("stam_setdemo_{}_{}", name, std::process::id()));
    let _ = fs::remove_dir_all(&d);
    fs::create_dir_all(&d).unwrap();
    d
}

/// Child part: does nothing unless STAM_DEMO_DIR is set
#[test]
fn child_load() {
    if let Ok(d) = std::env::var("STAM_DEMO_DIR") {
        let filename = format!("{}/s.store.stam.json", d);
        match AnnotationStore::from_file(&filename, Config::default()) {
            Ok(store) => println!(
                "CHILD: loaded, {} dataset(s), {} key(s)",
                store.datasets().count(),
                store.datasets().map(|s| s.keys().count()).sum::<usize>()
            ),
            Err(e) => println!("CHILD: error returned: {}", e),
        }
    }
}

fn run_child(d: &PathBuf) -> (bool, String) {
    let out = Command::new(std::env::current_exe().unwrap())
        .args(["child_load", "--exact", "--nocapture", "--test-threads=1"])
        .env("STAM_DEMO_DIR", d.to_str().unwrap())
        .output()
        .expect("spawning child");
    (
        out.status.success(),
        format!(
            "status: {:?}\nstdout: {}\nstderr: {}",
            out.status,
            String::from_utf8_lossy(&out.stdout),
            String::from_utf8_lossy(&out.stderr)
                .lines()
                .filter(|l| l.contains("overflow") || l.contains("panicked") || l.contains("fatal"))
                .collect::<Vec<_>>()
                .join("\n")
        ),
    )
}

const STORE: &str = r#"{"@type":"AnnotationStore","@id":"S","resources":[],"annotationsets":[{"@type":"AnnotationDataSet","@id":"set","@include":"set.json"}],"annotations":[]}"#;

#[test]
fn sanity_valid_standoff_dataset_loads() {
    let d = dir("valid");
    fs::write(d.join("s.store.stam.json"), STORE).unwrap();
    fs::write(
        d.join("set.json"),
        r#"{"@type":"AnnotationDataSet","@id":"set","keys":[{"@type":"DataKey","@id":"pos"}],"data":[]}"#,
    )
    .unwrap();
    let (ok, report) = run_child(&d);
    assert!(ok && report.contains("CHILD: loaded, 1 dataset(s), 1 key(s)"), "the valid serialisation must load: {}", report);
}

#[test]
fn standoff_dataset_that_includes_itself() {
    let d = dir("self");
    fs::write(d.join("s.store.stam.json"), STORE).unwrap();
    fs::write(
        d.join("set.json"),
        r#"{"@type":"AnnotationDataSet","@id":"set","@include":"set.json","keys":[{"@type":"DataKey","@id":"pos"}],"data":[]}"#,
    )
    .unwrap();
    let (ok, report) = run_child(&d);
    assert!(
        ok,
        "expected: a dataset file that @includes itself yields an error (or is loaded once); got: the loading process died\n{}",
        report
    );
}

#[test]
fn standoff_datasets_that_include_each_other() {
    let d = dir("mutual");
    fs::write(d.join("s.store.stam.json"), STORE).unwrap();
    fs::write(
        d.join("set.json"),
        r#"{"@type":"AnnotationDataSet","@id":"set","@include":"other.json"}"#,
    )
    .unwrap();
    fs::write(
        d.join("other.json"),
        r#"{"@type":"AnnotationDataSet","@id":"set","@include":"set.json"}"#,
    )
    .unwrap();
    let (ok, report) = run_child(&d);
    assert!(
        ok,
        "expected: dataset files that @include each other yield an error; got: the loading process died\n{}",
        report
    );
}

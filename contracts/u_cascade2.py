"""U-cascade2: the cascade loops of the removal callbacks of AnnotationStore (src/annotationstore.rs):
StoreCallbacks<TextResource>::preremove, StoreCallbacks<AnnotationDataSet>::preremove and the head of
StoreCallbacks<Annotation>::preremove.  Over the (assumed, recursive) contract of removing one annotation - it is gone
afterwards and nothing is created or resurrected - every annotation that the reverse indices list as referencing the
item being removed is gone when the callback returns Ok, the item's own index rows are cleared, and nothing else is
created.  Serves C02 (the removal cascades to everything the indices know to reference the item)."""
from vx.gen import Unit, Fn
from . import common
from . import u_map

P = ['C02']
AS = 'src/annotationstore.rs'

STUBS = r'''
/// R-err
#[verifier::external_body]
pub fn vx_msg() -> String { String::new() }

/// R-opaque: an annotation (only its liveness matters here)
#[verifier::external_body]
pub struct Annotation { _p: usize }

pub open spec fn live_a(s: Seq<Option<Annotation>>, h: AnnotationHandle) -> bool { h.idx() < s.len() && s[h.idx() as int] is Some }
/// nothing is created or resurrected
pub open spec fn shrinks(o: Seq<Option<Annotation>>, n: Seq<Option<Annotation>>) -> bool {
    n.len() == o.len() && forall|i: int| 0 <= i < o.len() ==> (#[trigger] n[i]) is None || n[i] == o[i]
}

/// an entry leaves a reverse index only when its annotation is removed (index hygiene of the removal, u_cascade: the
/// un-indexing removes exactly the removed annotation's own entries)
pub open spec fn kept_or_dead(o: AnnotationStore, n: AnnotationStore) -> bool {
    (forall|x: int, h: AnnotationHandle| rm_row(o.resource_annotation_metamap, x).contains(h) ==> #[trigger] rm_row(n.resource_annotation_metamap, x).contains(h) || !live_a(n.annotations@, h))
    && (forall|x: int, h: AnnotationHandle| rm_row(o.dataset_annotation_metamap, x).contains(h) ==> #[trigger] rm_row(n.dataset_annotation_metamap, x).contains(h) || !live_a(n.annotations@, h))
    && (forall|x: int, y: int, h: AnnotationHandle| o.textrelationmap.cell(x, y).contains(h) ==> #[trigger] n.textrelationmap.cell(x, y).contains(h) || !live_a(n.annotations@, h))
    && (forall|x: AnnotationHandle, h: AnnotationHandle| bt_row(o.annotation_annotation_map, x).contains(h) ==> #[trigger] bt_row(n.annotation_annotation_map, x).contains(h) || !live_a(n.annotations@, h))
    && (forall|x: int, y: int, h: AnnotationHandle| o.key_annotation_metamap.cell(x, y).contains(h) ==> #[trigger] n.key_annotation_metamap.cell(x, y).contains(h) || !live_a(n.annotations@, h))
    && (forall|x: int, y: int, h: AnnotationHandle| o.data_annotation_metamap.cell(x, y).contains(h) ==> #[trigger] n.data_annotation_metamap.cell(x, y).contains(h) || !live_a(n.annotations@, h))
}
/// the removal of an annotation adds nothing to an index: a cleared row / cell stays cleared
pub open spec fn no_new_dataset_entries(o: AnnotationStore, n: AnnotationStore) -> bool {
    (forall|x: int| #[trigger] rm_row(o.dataset_annotation_metamap, x).len() == 0 ==> rm_row(n.dataset_annotation_metamap, x).len() == 0)
    && (forall|x: int, y: int| (#[trigger] o.key_annotation_metamap.cell(x, y)).len() == 0 ==> n.key_annotation_metamap.cell(x, y).len() == 0)
    && (forall|x: int, y: int| (#[trigger] o.data_annotation_metamap.cell(x, y)).len() == 0 ==> n.data_annotation_metamap.cell(x, y).len() == 0)
}
pub proof fn lemma_kept_trans(a: AnnotationStore, b: AnnotationStore, c: AnnotationStore)
    requires kept_or_dead(a, b), kept_or_dead(b, c), shrinks(b.annotations@, c.annotations@),
    ensures kept_or_dead(a, c),
{
    assert forall|x: int, h: AnnotationHandle| rm_row(a.resource_annotation_metamap, x).contains(h) implies #[trigger] rm_row(c.resource_annotation_metamap, x).contains(h) || !live_a(c.annotations@, h) by {
        if !rm_row(b.resource_annotation_metamap, x).contains(h) { assert(!live_a(b.annotations@, h)); }
    }
    assert forall|x: int, h: AnnotationHandle| rm_row(a.dataset_annotation_metamap, x).contains(h) implies #[trigger] rm_row(c.dataset_annotation_metamap, x).contains(h) || !live_a(c.annotations@, h) by {
        if !rm_row(b.dataset_annotation_metamap, x).contains(h) { assert(!live_a(b.annotations@, h)); }
    }
    assert forall|x: int, y: int, h: AnnotationHandle| a.textrelationmap.cell(x, y).contains(h) implies #[trigger] c.textrelationmap.cell(x, y).contains(h) || !live_a(c.annotations@, h) by {
        if !b.textrelationmap.cell(x, y).contains(h) { assert(!live_a(b.annotations@, h)); }
    }
    assert forall|x: AnnotationHandle, h: AnnotationHandle| bt_row(a.annotation_annotation_map, x).contains(h) implies #[trigger] bt_row(c.annotation_annotation_map, x).contains(h) || !live_a(c.annotations@, h) by {
        if !bt_row(b.annotation_annotation_map, x).contains(h) { assert(!live_a(b.annotations@, h)); }
    }
    assert forall|x: int, y: int, h: AnnotationHandle| a.key_annotation_metamap.cell(x, y).contains(h) implies #[trigger] c.key_annotation_metamap.cell(x, y).contains(h) || !live_a(c.annotations@, h) by {
        if !b.key_annotation_metamap.cell(x, y).contains(h) { assert(!live_a(b.annotations@, h)); }
    }
    assert forall|x: int, y: int, h: AnnotationHandle| a.data_annotation_metamap.cell(x, y).contains(h) implies #[trigger] c.data_annotation_metamap.cell(x, y).contains(h) || !live_a(c.annotations@, h) by {
        if !b.data_annotation_metamap.cell(x, y).contains(h) { assert(!live_a(b.annotations@, h)); }
    }
}
pub proof fn lemma_kept_refl(a: AnnotationStore)
    ensures kept_or_dead(a, a),
{
}

impl AnnotationStore {
    /// stands for `<AnnotationStore as StoreFor<Annotation>>::has(self, handle)` (contract proved for the generic StoreFor::has in u_store)
    #[verifier::external_body]
    pub fn vx_has_annotation(&self, h: AnnotationHandle) -> (r: bool)
        ensures r == live_a(self.annotations@, h),
    { unimplemented!() }

    /// stands for `<AnnotationStore as StoreFor<Annotation>>::remove(self, handle)`: the recursive removal of one annotation.
    /// Assumed (the generic StoreFor::remove proves tombstone and only-shrinks for every store, u_store): on Ok the
    /// annotation is gone; in every case nothing is created or resurrected.  What it does to the reverse indices is not used.
    #[verifier::external_body]
    pub fn vx_remove_annotation(&mut self, h: AnnotationHandle) -> (r: Result<(), StamError>)
        ensures
            r is Ok ==> !live_a(final(self).annotations@, h),
            shrinks(old(self).annotations@, final(self).annotations@),
            kept_or_dead(*old(self), *final(self)),
            no_new_dataset_entries(*old(self), *final(self)),
    { unimplemented!() }

    /// R-outline: stands for the first loop of StoreCallbacks<AnnotationDataSet>::preremove - `for annotation in
    /// <AnnotationStore as StoreFor<Annotation>>::iter(self) { if annotation.data().any(|(set_handle, _)| *set_handle == handle)
    /// { annotations.insert(annotation.handle_or_err()?); } }` - the annotations that use data of the set (store iterator and
    /// closure, outside Verus).  `uses_set` is uninterpreted.
    #[verifier::external_body]
    pub fn vx_annotations_using_dataset(&self, handle: AnnotationDataSetHandle) -> (r: Result<Vec<AnnotationHandle>, StamError>)
        ensures r is Ok ==> forall|a: AnnotationHandle| live_a(self.annotations@, a) && uses_set(self.annotations@[a.idx() as int].unwrap(), handle) ==> r->Ok_0@.contains(a),
    { unimplemented!() }
}
pub uninterp spec fn uses_set(a: Annotation, set: AnnotationDataSetHandle) -> bool;

/// R-outline: `V.clone()` of a vector of Copy handles
#[verifier::external_body]
pub fn vx_clone_handles(v: &Vec<AnnotationHandle>) -> (r: Vec<AnnotationHandle>)
    ensures r@ == v@,
{ v.clone() }

/// R-outline: stands for `let mut annotations: BTreeSet<AnnotationHandle> = BTreeSet::new(); annotations.extend(map.data.iter().flatten());`
/// - every handle listed in any row of the inner map (as a vector; duplicates removed by the set do not matter here)
#[verifier::external_body]
pub fn vx_flatten_rows<B>(map: &RelationMap<B, AnnotationHandle>) -> (r: Vec<AnnotationHandle>)
    ensures forall|j: int, k: int| 0 <= j < map.data@.len() && 0 <= k < map.data@[j]@.len() ==> r@.contains(#[trigger] map.data@[j]@[k]),
{ unimplemented!() }
'''

LOOP_END = '''proof {
                    let i = vx_it.index@ as int;
                    if self.annotations@ != vx_pre || true { lemma_kept_trans(*old(self), vx_pre_store, *self); }
                    assert forall|j: int| 0 <= j < i + 1 implies !live_a(self.annotations@, #[trigger] LIST@[j]) by {
                        if j < i { assert(!live_a(vx_pre, LIST@[j])); }
                    }
                }'''


RES_END = '''proof {
            let o = *old(self); let x = handle.idx() as int;
            assert(vx_l1 =~= rm_row(o.resource_annotation_metamap, x));
            assert forall|k: int| 0 <= k < vx_l1.len() implies !live_a(self.annotations@, #[trigger] vx_l1[k]) by { assert(!live_a(vx_mid.annotations@, vx_l1[k])); }
            assert forall|y: int, k: int| 0 <= k < o.textrelationmap.cell(x, y).len() implies !live_a(self.annotations@, #[trigger] o.textrelationmap.cell(x, y)[k]) by {
                let h = o.textrelationmap.cell(x, y)[k];
                assert(o.textrelationmap.cell(x, y).contains(h));
                if vx_mid.textrelationmap.cell(x, y).contains(h) {
                    let w = choose|w: int| 0 <= w < vx_mid.textrelationmap.cell(x, y).len() && vx_mid.textrelationmap.cell(x, y)[w] == h;
                    assert(vx_l2.contains(h));
                    let q = choose|q: int| 0 <= q < vx_l2.len() && vx_l2[q] == h;
                    assert(!live_a(self.annotations@, vx_l2[q]));
                } else {
                    assert(!live_a(vx_mid.annotations@, h));
                }
            }
        }'''


SET_END = '''proof {
            let o = *old(self); let x = handle.idx() as int;
            assert forall|a: AnnotationHandle| live_a(o.annotations@, a) && uses_set(o.annotations@[a.idx() as int].unwrap(), handle) implies !live_a(self.annotations@, a) by {
                assert(vx_l1.contains(a));
                let q = choose|q: int| 0 <= q < vx_l1.len() && vx_l1[q] == a;
                assert(!live_a(vx_mid.annotations@, vx_l1[q]));
            }
            assert forall|k: int| 0 <= k < rm_row(o.dataset_annotation_metamap, x).len() implies !live_a(self.annotations@, #[trigger] rm_row(o.dataset_annotation_metamap, x)[k]) by {
                let h = rm_row(o.dataset_annotation_metamap, x)[k];
                assert(rm_row(o.dataset_annotation_metamap, x).contains(h));
                if rm_row(vx_mid.dataset_annotation_metamap, x).contains(h) {
                    assert(vx_l2 =~= rm_row(vx_mid.dataset_annotation_metamap, x));
                    let q = choose|q: int| 0 <= q < vx_l2.len() && vx_l2[q] == h;
                    assert(!live_a(self.annotations@, vx_l2[q]));
                } else {
                    assert(!live_a(vx_mid.annotations@, h));
                }
            }
        }'''


SET_END3 = '''proof {
            let o = *old(self); let x = handle.idx() as int;
            assert forall|y: int, k: int| 0 <= k < o.MAP.cell(x, y).len() implies !live_a(self.annotations@, #[trigger] o.MAP.cell(x, y)[k]) by {
                let h = o.MAP.cell(x, y)[k];
                assert(o.MAP.cell(x, y).contains(h));
                if MID.MAP.cell(x, y).contains(h) {
                    let w = choose|w: int| 0 <= w < MID.MAP.cell(x, y).len() && MID.MAP.cell(x, y)[w] == h;
                    assert(LST.contains(h));
                    let q = choose|q: int| 0 <= q < LST.len() && LST[q] == h;
                    assert(!live_a(self.annotations@, LST[q]));
                } else {
                    assert(!live_a(MID.annotations@, h));
                }
            }
        }'''


AFTER_RM = '''proof {
            let o = *old(self); let x0 = handle.idx() as int;
            assert forall|x: int, h: AnnotationHandle| rm_row(o.MAP, x).contains(h) implies #[trigger] rm_row(self.MAP, x).contains(h) || !live_a(self.annotations@, h) by {
                if x == x0 { let k = choose|k: int| 0 <= k < rm_row(o.MAP, x).len() && rm_row(o.MAP, x)[k] == h; assert(!live_a(self.annotations@, rm_row(o.MAP, x0)[k])); }
                else { assert(rm_row(self.MAP, x) == rm_row(vx_b.MAP, x)) by { if 0 <= x < vx_b.MAP@.len() { assert(self.MAP@[x] == vx_b.MAP@[x]); } } }
            }
            assert(kept_or_dead(o, *self));
        }'''

AFTER_TR = '''proof {
            let o = *old(self); let x0 = handle.idx() as int;
            assert forall|x: int, y: int, h: AnnotationHandle| o.MAP.cell(x, y).contains(h) implies #[trigger] self.MAP.cell(x, y).contains(h) || !live_a(self.annotations@, h) by {
                if x == x0 { let k = choose|k: int| 0 <= k < o.MAP.cell(x, y).len() && o.MAP.cell(x, y)[k] == h; assert(!live_a(self.annotations@, o.MAP.cell(x0, y)[k])); }
                else { assert(self.MAP.cell(x, y) == vx_b.MAP.cell(x, y)) by { if 0 <= x < vx_b.MAP.data@.len() { assert(self.MAP.data@[x] == vx_b.MAP.data@[x]); } } }
            }
            assert(kept_or_dead(o, *self));
        }'''


AFTER_BT = '''proof {
            let o = *old(self);
            assert forall|x: AnnotationHandle, h: AnnotationHandle| bt_row(o.annotation_annotation_map, x).contains(h) implies #[trigger] bt_row(self.annotation_annotation_map, x).contains(h) || !live_a(self.annotations@, h) by {
                if x == handle { let k = choose|k: int| 0 <= k < bt_row(o.annotation_annotation_map, x).len() && bt_row(o.annotation_annotation_map, x)[k] == h; assert(!live_a(self.annotations@, bt_row(o.annotation_annotation_map, handle)[k])); }
                else { assert(bt_row(self.annotation_annotation_map, x) == bt_row(vx_b.annotation_annotation_map, x)); }
            }
            assert(kept_or_dead(o, *self));
        }'''


def casc(lst, base=None, keep_cleared=False, key_row_cleared=False):
    """loop over a pre-collected list of annotation handles: everything processed so far is gone, nothing is created"""
    extra = [('since_phase_start', f'shrinks({base}.annotations@, self.annotations@)')] if base else []
    if keep_cleared:
        extra.append(('dataset_row_stays_cleared', 'rm_row(self.dataset_annotation_metamap, handle.idx() as int).len() == 0'))
    if key_row_cleared:
        extra.append(('key_row_stays_cleared', 'forall|y: int| (#[trigger] self.key_annotation_metamap.cell(handle.idx() as int, y)).len() == 0'))
    return dict(invariant=extra + [
        ('gone_so_far', f'forall|j: int| 0 <= j < vx_it.index@ ==> !live_a(self.annotations@, #[trigger] {lst}@[j])'),
        ('shrinks', 'shrinks(old(self).annotations@, self.annotations@)'),
        ('kept_or_dead', 'kept_or_dead(*old(self), *self)'),
    ], at_end=LOOP_END.replace('LIST', lst) + (''' proof { assert forall|y: int| (#[trigger] self.key_annotation_metamap.cell(handle.idx() as int, y)).len() == 0 by { assert(vx_pre_store.key_annotation_metamap.cell(handle.idx() as int, y).len() == 0); } }''' if key_row_cleared else ''), at_end_label='cascade')


def build():
    u = Unit('u_cascade2', serves=['C02'])
    u.use('use std::marker::PhantomData;')
    u.use('use std::collections::BTreeMap;')
    common.target64(u)
    common.std_specs(u)
    common.handle_trait(u, P)
    for h in ('AnnotationHandle', 'TextResourceHandle', 'AnnotationDataSetHandle', 'TextSelectionHandle', 'DataKeyHandle', 'AnnotationDataHandle'):
        common.handle_impl(u, h, P)
    u.trusted_text(u_map.VX_POSITION, 'external_body vx_position: std Iterator::position semantics + structural == on handles (R-outline)')
    u_map.emit_relationmap(u, P, with_canary=False, pushed=True)
    u_map.emit_other_maps(u, P, pushed=True)
    u.item('src/error.rs', 'enum', 'StamError', keep_variants=['HandleError', 'NotFoundError'], keep_derives=['Debug'],
           rewrites=[('R-field', r'NotFoundError\(Type, &\'static str\)', "NotFoundError(&'static str)")])
    u.item('src/store.rs', 'type', 'Store')
    u.item(AS, 'struct', 'AnnotationStore', keep_fields=['annotations', 'textrelationmap', 'resource_annotation_metamap', 'dataset_annotation_metamap', 'annotation_annotation_map', 'key_annotation_metamap', 'data_annotation_metamap'], keep_derives=[])
    u.trusted_text(STUBS, 'external_body: removal of one annotation (recursive; assumed: gone on Ok, only-shrinks), has(), the scan for annotations using a dataset, Vec::clone, flattening of index rows into a set')

    HAS = ('R-request', r'<AnnotationStore as StoreFor<Annotation>>::has\(self, a_handle\)', 'self.vx_has_annotation(a_handle)')
    REM = ('R-request', r'<AnnotationStore as StoreFor<Annotation>>::remove\(self, a_handle\)', 'self.vx_remove_annotation(a_handle)')
    CLONE = ('R-outline', r'annotations\.clone\(\)', 'vx_clone_handles(annotations)')
    PRE = ('R-forname', r'for a_handle in ', 'for a_handle in vx_it: ')
    O, N = 'old(self)', 'final(self)'

    # ---------------------------------------------------------------- removing a resource
    u.impl(AS, 'impl private::StoreCallbacks<TextResource> for AnnotationStore', [
        Fn('preremove', emit_name='preremove__resource', props=P, ret='r',
           rewrites=[HAS, REM,
                     ('R-outline', r'annotations\.clone\(\)', 'vx_list1'),
                     ('R-outline', r'if let Some\(annotations\) = self\.resource_annotation_metamap\.data\.get\(handle\.as_usize\(\)\) \{', 'if let Some(annotations) = self.resource_annotation_metamap.data.get(handle.as_usize()) { let vx_list1 = vx_clone_handles(annotations); proof { vx_l1 = vx_list1@; }'),
                     ('R-outline', r'(?s)let mut annotations: BTreeSet<AnnotationHandle> = BTreeSet::new\(\);\s*annotations\.extend\(map\.data\.iter\(\)\.flatten\(\)\);', 'let annotations = vx_flatten_rows(map); proof { vx_l2 = annotations@; }'),
                     ('R-forname', r'for a_handle in vx_list1 \{', 'for a_handle in vx_it: vx_list1 { let ghost vx_pre = self.annotations@; let ghost vx_pre_store = *self;'),
                     ('R-forname', r'for a_handle in annotations \{', 'for a_handle in vx_it: annotations { let ghost vx_pre = self.annotations@; let ghost vx_pre_store = *self;')],
           loops={r'vx_it: vx_list1': casc('vx_list1'), r'vx_it: annotations\b': casc('annotations', 'vx_mid')},
           prologue='proof { lemma_kept_refl(*self); } let ghost mut vx_l1: Seq<AnnotationHandle> = Seq::empty(); let ghost mut vx_l2: Seq<AnnotationHandle> = Seq::empty();',
           before=[(r're:if let Some\(map\) = self\.textrelationmap', 'let ghost vx_mid = *self;'),
                   ('self.resource_annotation_metamap.remove_all(handle);', RES_END + ' let ghost vx_b = *self;', None, 'cascade'),
                   ('self.textrelationmap.remove_all(handle);', 'let ghost vx_b = *self;', None, 'cascade')],
           after=[('self.resource_annotation_metamap.remove_all(handle);', AFTER_RM.replace('MAP', 'resource_annotation_metamap'), None, 'cascade'),
                  ('self.textrelationmap.remove_all(handle);', AFTER_TR.replace('MAP', 'textrelationmap'), None, 'cascade')],
           ensures=[('metadata_annotations_gone', f'r is Ok ==> forall|k: int| 0 <= k < rm_row({O}.resource_annotation_metamap, handle.idx() as int).len() ==> !live_a({N}.annotations@, #[trigger] rm_row({O}.resource_annotation_metamap, handle.idx() as int)[k])'),
                    ('text_annotations_gone', f'r is Ok ==> forall|y: int, k: int| 0 <= k < {O}.textrelationmap.cell(handle.idx() as int, y).len() ==> !live_a({N}.annotations@, #[trigger] {O}.textrelationmap.cell(handle.idx() as int, y)[k])'),
                    ('rows_cleared', f'r is Ok ==> rm_row({N}.resource_annotation_metamap, handle.idx() as int).len() == 0 && forall|y: int| #[trigger] {N}.textrelationmap.cell(handle.idx() as int, y).len() == 0'),
                    ('index_frame', f'kept_or_dead(*{O}, *{N})'),
                    ('nothing_created', f'shrinks({O}.annotations@, {N}.annotations@)')]),
    ], verus_header='impl AnnotationStore')
    # ---------------------------------------------------------------- removing a dataset
    u.impl(AS, 'impl private::StoreCallbacks<AnnotationDataSet> for AnnotationStore', [
        Fn('preremove', emit_name='preremove__dataset', props=P, ret='r',
           rewrites=[HAS, REM,
                     ('R-outline', r'(?s)let mut annotations: BTreeSet<AnnotationHandle> = BTreeSet::new\(\);\s*for annotation in <AnnotationStore as StoreFor<Annotation>>::iter\(self\) \{\s*if annotation\s*\.data\(\)\s*\.any\(\|\(set_handle, _\)\| \*set_handle == handle\)\s*\{\s*annotations\.insert\(annotation\.handle_or_err\(\)\?\);\s*\}\s*\}\n',
                      'let annotations = self.vx_annotations_using_dataset(handle)?; proof { vx_l1 = annotations@; }\n\n\n\n\n\n\n\n\n'),
                     ('R-outline', r'if let Some\(annotations\) = self\.dataset_annotation_metamap\.data\.get\(handle\.as_usize\(\)\) \{', 'if let Some(annotations) = self.dataset_annotation_metamap.data.get(handle.as_usize()) { let vx_list2 = vx_clone_handles(annotations); proof { vx_l2 = vx_list2@; }'),
                     ('R-outline', r'annotations\.clone\(\)', 'vx_list2'),
                     ('R-outline', r'(?s)if let Some\(map\) = self\.key_annotation_metamap\.data\.get\(handle\.as_usize\(\)\) \{\s*let mut annotations: BTreeSet<AnnotationHandle> = BTreeSet::new\(\);\s*annotations\.extend\(map\.data\.iter\(\)\.flatten\(\)\);\s*for a_handle in annotations \{',
                      'if let Some(map) = self.key_annotation_metamap.data.get(handle.as_usize()) {\n let vx_list3 = vx_flatten_rows(map); proof { vx_l3 = vx_list3@; }\n for a_handle in vx_it: vx_list3 { let ghost vx_pre = self.annotations@; let ghost vx_pre_store = *self;'),
                     ('R-outline', r'(?s)if let Some\(map\) = self\.data_annotation_metamap\.data\.get\(handle\.as_usize\(\)\) \{\s*let mut annotations: BTreeSet<AnnotationHandle> = BTreeSet::new\(\);\s*annotations\.extend\(map\.data\.iter\(\)\.flatten\(\)\);\s*for a_handle in annotations \{',
                      'if let Some(map) = self.data_annotation_metamap.data.get(handle.as_usize()) {\n let vx_list4 = vx_flatten_rows(map); proof { vx_l4 = vx_list4@; }\n for a_handle in vx_it: vx_list4 { let ghost vx_pre = self.annotations@; let ghost vx_pre_store = *self;'),
                     ('R-forname', r'for a_handle in annotations \{', 'for a_handle in vx_it: annotations { let ghost vx_pre = self.annotations@; let ghost vx_pre_store = *self;'),
                     ('R-forname', r'for a_handle in vx_list2 \{', 'for a_handle in vx_it: vx_list2 { let ghost vx_pre = self.annotations@; let ghost vx_pre_store = *self;')],
           loops={r'vx_it: annotations\b': casc('annotations'), r'vx_it: vx_list2': casc('vx_list2', 'vx_mid'), r'vx_it: vx_list3': casc('vx_list3', 'vx_mid3', True), r'vx_it: vx_list4': casc('vx_list4', 'vx_mid4', True, True)},
           prologue='proof { lemma_kept_refl(*self); } let ghost mut vx_l1: Seq<AnnotationHandle> = Seq::empty(); let ghost mut vx_l2: Seq<AnnotationHandle> = Seq::empty(); let ghost mut vx_l3: Seq<AnnotationHandle> = Seq::empty(); let ghost mut vx_l4: Seq<AnnotationHandle> = Seq::empty();',
           before=[(r're:if let Some\(annotations\) = self\.dataset_annotation_metamap', 'let ghost vx_mid = *self;'),
                   ('self.dataset_annotation_metamap.remove_all(handle);', SET_END + ' let ghost vx_b = *self;', None, 'cascade'),
                   (r're:if let Some\(map\) = self\.key_annotation_metamap', 'let ghost vx_mid3 = *self;'),
                   (r're:if let Some\(map\) = self\.data_annotation_metamap', 'let ghost vx_mid4 = *self;'),
                   ('self.key_annotation_metamap.remove_all(handle);', SET_END3.replace('MAP', 'key_annotation_metamap').replace('MID', 'vx_mid3').replace('LST', 'vx_l3') + ' let ghost vx_b = *self;', None, 'cascade'),
                   ('self.data_annotation_metamap.remove_all(handle);', SET_END3.replace('MAP', 'data_annotation_metamap').replace('MID', 'vx_mid4').replace('LST', 'vx_l4') + ' let ghost vx_b = *self;', None, 'cascade')],
           after=[('self.dataset_annotation_metamap.remove_all(handle);', AFTER_RM.replace('MAP', 'dataset_annotation_metamap'), None, 'cascade'),
                  ('self.key_annotation_metamap.remove_all(handle);', AFTER_TR.replace('MAP', 'key_annotation_metamap'), None, 'cascade'),
                  ('self.data_annotation_metamap.remove_all(handle);', AFTER_TR.replace('MAP', 'data_annotation_metamap'), None, 'cascade')],
           ensures=[('users_gone', f'r is Ok ==> forall|a: AnnotationHandle| live_a({O}.annotations@, a) && uses_set({O}.annotations@[a.idx() as int].unwrap(), handle) ==> !live_a({N}.annotations@, a)'),
                    ('metadata_annotations_gone', f'r is Ok ==> forall|k: int| 0 <= k < rm_row({O}.dataset_annotation_metamap, handle.idx() as int).len() ==> !live_a({N}.annotations@, #[trigger] rm_row({O}.dataset_annotation_metamap, handle.idx() as int)[k])'),
                    ('row_cleared', f'r is Ok ==> rm_row({N}.dataset_annotation_metamap, handle.idx() as int).len() == 0'),
                    ('key_annotations_gone', f'r is Ok ==> forall|y: int, k: int| 0 <= k < {O}.key_annotation_metamap.cell(handle.idx() as int, y).len() ==> !live_a({N}.annotations@, #[trigger] {O}.key_annotation_metamap.cell(handle.idx() as int, y)[k])'),
                    ('data_annotations_gone', f'r is Ok ==> forall|y: int, k: int| 0 <= k < {O}.data_annotation_metamap.cell(handle.idx() as int, y).len() ==> !live_a({N}.annotations@, #[trigger] {O}.data_annotation_metamap.cell(handle.idx() as int, y)[k])'),
                    ('metadata_rows_cleared', f'r is Ok ==> forall|y: int| (#[trigger] {N}.key_annotation_metamap.cell(handle.idx() as int, y)).len() == 0 && (#[trigger] {N}.data_annotation_metamap.cell(handle.idx() as int, y)).len() == 0'),
                    # frame: no index loses an entry of an annotation that is still there (the rows of other datasets, resources, keys .. stay)
                    ('index_frame', f'kept_or_dead(*{O}, *{N})'),
                    ('nothing_created', f'shrinks({O}.annotations@, {N}.annotations@)')]),
    ], verus_header='impl AnnotationStore')
    # ---------------------------------------------------------------- removing an annotation: the annotations that target it go first
    CMP = 'vstd::laws_cmp::obeys_cmp::<AnnotationHandle>()'
    u.impl(AS, 'impl private::StoreCallbacks<Annotation> for AnnotationStore', [
        Fn('preremove', emit_name='preremove__dependents', props=P, ret='r',
           region=('if let Some(handles) = self.annotation_annotation_map.get(handle) {', 'let annotation = self.annotation(handle).or_fail()?;',
                   'fn preremove__dependents(&mut self, handle: AnnotationHandle) -> Result<(), StamError>', '        Ok(())'),
           rewrites=[HAS, REM,
                     ('R-outline', r'if let Some\(handles\) = self\.annotation_annotation_map\.get\(handle\) \{', 'if let Some(handles) = self.annotation_annotation_map.get(handle) { let vx_list1 = vx_clone_handles(handles); proof { vx_l1 = vx_list1@; }'),
                     ('R-outline', r'handles\.clone\(\)', 'vx_list1'),
                     ('R-forname', r'for a_handle in vx_list1 \{', 'for a_handle in vx_it: vx_list1 { let ghost vx_pre = self.annotations@; let ghost vx_pre_store = *self;')],
           loops={r'vx_it: vx_list1': dict(invariant=[('cmp', CMP)] + casc('vx_list1')['invariant'], at_end=casc('vx_list1')['at_end'], at_end_label='cascade')},
           prologue='proof { lemma_kept_refl(*self); } let ghost mut vx_l1: Seq<AnnotationHandle> = Seq::empty();',
           before=[('self.annotation_annotation_map.remove_all(handle);', 'proof { assert(vx_l1 =~= bt_row(old(self).annotation_annotation_map, handle)); } let ghost vx_b = *self;', None, 'cascade')],
           after=[('self.annotation_annotation_map.remove_all(handle);', AFTER_BT, None, 'cascade')],
           requires=[('cmp_laws', CMP)],
           ensures=[('dependents_gone', f'r is Ok ==> forall|k: int| 0 <= k < bt_row({O}.annotation_annotation_map, handle).len() ==> !live_a({N}.annotations@, #[trigger] bt_row({O}.annotation_annotation_map, handle)[k])'),
                    ('row_cleared', f'r is Ok ==> bt_row({N}.annotation_annotation_map, handle).len() == 0'),
                    ('index_frame', f'kept_or_dead(*{O}, *{N})'),
                    ('nothing_created', f'shrinks({O}.annotations@, {N}.annotations@)')]),
    ], verus_header='impl AnnotationStore')
    return u

// replay of the defect repaired by /repo commit f308cf3 (C14): copy to /repo/tests/ and run it with cargo test; it fails on the parent commit.
// Loading a sub store (add_substore(), or "@include" in merge_json_str()) from a file that cannot
// be read returns an error, but an empty substore for that file stays behind and stays the
// *current* substore: the store can no longer be serialised and everything that is merged
// in later on is silently assigned to the substore that was never loaded.
use stam::*;

const MISSING: &str = "/nonexistent-dir-stam-hunt-l/missing.store.stam.json";

fn base() -> AnnotationStore {
    AnnotationStore::default()
        .with_id("s")
        .with_resource(
            TextResourceBuilder::new()
                .with_id("r1")
                .with_text("hello world"),
        )
        .unwrap()
        .with_dataset(
            AnnotationDataSetBuilder::new()
                .with_id("set1")
                .with_key_value_id("k1", "v1", "d1"),
        )
        .unwrap()
}

fn check_unchanged(mut store: AnnotationStore, json_before: String, what: &str) {
    assert_eq!(
        store.substores().count(),
        0,
        "after a FAILED {} the store must have no substore, as before",
        what
    );
    assert_eq!(store.substores_len(), 0, "after a FAILED {} substores_len() must still be 0", what);
    let json_after = store.to_json_string(&Config::default());
    assert_eq!(
        json_after.as_ref().ok(),
        Some(&json_before),
        "after a FAILED {} the store must serialise exactly as before (got {:?})",
        what,
        json_after.as_ref().err()
    );

    // a later, valid, merge must behave as if the failed attempt never happened
    store
        .merge_json_str(
            r#"{ "@type": "AnnotationStore", "resources": [ { "@type": "TextResource", "@id": "r2", "text": "second" } ] }"#,
        )
        .expect("valid merge must succeed");
    let r2 = store.resource("r2").expect("r2 was added");
    assert_eq!(
        r2.substores().count(),
        0,
        "a resource merged in after a FAILED {} must belong to the root store, not to the substore that could not be loaded",
        what
    );
    let json = store
        .to_json_string(&Config::default())
        .expect("store must still be serialisable");
    assert!(
        json.contains("\"r2\"") && !json.contains("@include"),
        "r2 must be serialised in the root store, without any @include: {}",
        json
    );
}

#[test]
fn failed_add_substore_leaves_a_substore_behind() {
    let mut store = base();
    let json_before = store.to_json_string(&Config::default()).unwrap();
    assert!(
        store.add_substore(MISSING).is_err(),
        "adding a substore from a file that does not exist must fail"
    );
    check_unchanged(store, json_before, "add_substore()");
}

#[test]
fn failed_merge_with_include_leaves_a_substore_behind() {
    let mut store = base();
    let json_before = store.to_json_string(&Config::default()).unwrap();
    let r = store.merge_json_str(&format!(
        r#"{{ "@type": "AnnotationStore", "@include": "{}" }}"#,
        MISSING
    ));
    assert!(r.is_err(), "merging a store that includes a missing file must fail");
    check_unchanged(store, json_before, "merge_json_str() with @include");
}

#!/bin/bash
# usage: record_fix.sh <property> <replay name> <demo.rs> <DESIGN row text> <known_findings text>   (run after the fix: commit exists as /repo HEAD)
P=$1; NAME=$2; DEMO=$3; ROW=$4; KF=$5
H=$(git -C /repo rev-parse --short HEAD)
(echo "// replay of the defect repaired by /repo commit $H ($P): copy to /repo/tests/ and run it with cargo test; it fails on the parent commit."; sed 's|^//!|//|' "$DEMO") > /verif/replay/fixed/${P}_${NAME}.rs   # (inner doc comments are not allowed where the replay is compiled into the crate)
python3 - "$H" "$P" "$NAME" "$ROW" "$KF" <<'PY'
import sys,re
h,p,name,row,kf=sys.argv[1:6]
f='/verif/known_findings.txt'; s=open(f).read()
line=f'fixed: property={p} {h} {kf}; replay replay/fixed/{p}_{name}.rs\n'
i=s.index('known: property=C14')
open(f,'w').write(s[:i]+line+s[i:])
f='/verif/DESIGN.md'; s=open(f).read()
s=s.replace("| 1407f4e | `remove_dataset` left",f"| {h} | {row} |\n| 1407f4e | `remove_dataset` left",1)
m=re.search(r"(\d+) `fix:` commits repair defects", s)
s=s.replace(m.group(0), f"{int(m.group(1))+1} `fix:` commits repair defects")
open(f,'w').write(s)
PY
python3 /verif/tools/mk_fixed_mods.py > /dev/null
echo "recorded $H"

// replay of the defect repaired by /repo commit e9f5c70 (C01): copy to /repo/tests/ and run it with cargo test; it fails on the parent commit.
use stam::*;
#[test]
fn datasets_of_an_annotation_are_listed_once() {
    let mut store = AnnotationStore::default()
        .with_resource(TextResourceBuilder::new().with_id("r").with_text("hello world")).unwrap()
        .with_dataset(AnnotationDataSetBuilder::new().with_id("s")).unwrap()
        .with_dataset(AnnotationDataSetBuilder::new().with_id("t")).unwrap();
    store.annotate(AnnotationBuilder::new().with_id("B")
        .with_target(SelectorBuilder::multiselector(vec![SelectorBuilder::datasetselector("t"), SelectorBuilder::datasetselector("s"), SelectorBuilder::datasetselector("t")]))
        .with_data("s", "k", "v")).unwrap();
    let b = store.annotation("B").unwrap();
    let sets: Vec<String> = b.datasets().map(|d| d.id().unwrap().to_string()).collect();
    // "This returns no duplicates even if a dataset is referenced multiple times."
    assert_eq!(sets, vec!["s".to_string(), "t".to_string()]);
}

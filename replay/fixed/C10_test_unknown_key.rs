// replay of the defect repaired by /repo commit 6f7883c (C10): copy to /repo/tests/ and run it with cargo test; it fails on the parent commit.
use stam::*;
#[test]
fn testing_data_against_a_key_that_does_not_exist_is_false_not_a_panic() {
    let mut store = AnnotationStore::default()
        .with_resource(TextResourceBuilder::new().with_id("r").with_text("hello world")).unwrap();
    store.annotate(AnnotationBuilder::new().with_id("A1").with_target(SelectorBuilder::textselector("r", Offset::simple(0, 5))).with_data_with_id("s", "pos", "noun", "D1")).unwrap();
    let data = store.annotationdata("s", "D1").unwrap();
    assert!(data.test("pos", &DataOperator::Any));
    assert!(!data.test("no-such-key", &DataOperator::Any), "a key that does not exist matches nothing");
    let key = store.key("s", "pos").unwrap();
    assert!(key.test("pos"));
    assert!(!key.test("no-such-key"));
}

// replay of the defect repaired by /repo commit c30921c (C19): copy to /repo/tests/ and run it with cargo test; it fails on the parent commit.
// Offset::len() on an inverted offset: panics (debug) / wraps around (release) when both cursors are
// begin-aligned, and returns a positive length when both are end-aligned.
use stam::*;

#[test]
fn len_of_valid_offsets() {
    assert_eq!(Offset::simple(2, 5).len(), Some(3));
    assert_eq!(Offset::simple(4, 4).len(), Some(0));
    assert_eq!(
        Offset::new(Cursor::EndAligned(-5), Cursor::EndAligned(-2)).len(),
        Some(3)
    );
    assert_eq!(Offset::whole().len(), None, "mixed alignment: undefined");
}

#[test]
fn len_of_inverted_begin_aligned_offset_does_not_panic() {
    let offset = Offset::simple(5, 2);
    let result = std::panic::catch_unwind(|| offset.len());
    assert!(
        result.is_ok(),
        "Offset::simple(5,2).len() panicked (attempt to subtract with overflow); an inverted offset has no length, expected None"
    );
    assert_eq!(
        result.unwrap(),
        None,
        "an inverted offset does not denote a range, its length is undefined (None)"
    );
}

#[test]
fn len_of_inverted_end_aligned_offset_is_undefined() {
    // begin = 2 before the end, end = 5 before the end: inverted, every resolver refuses it
    let offset = Offset::new(Cursor::EndAligned(-2), Cursor::EndAligned(-5));
    let store = AnnotationStore::default()
        .with_resource(TextResourceBuilder::new().with_id("r").with_text("héllo wörld"))
        .unwrap();
    assert!(store.resource("r").unwrap().textselection(&offset).is_err());
    assert_eq!(
        offset.len(),
        None,
        "an inverted end-aligned offset is refused everywhere else, it must not report a length of 3"
    );
    // a positive end-aligned cursor is malformed, no length either
    assert_eq!(
        Offset::new(Cursor::EndAligned(-2), Cursor::EndAligned(3)).len(),
        None,
        "EndAligned(3) is not a well-formed cursor"
    );
}

"""U-subtext: the relative codepoint/byte conversions on text selections (src/api/text.rs:
impl Text for ResultTextSelection and for ResultItem<TextSelection>).  They delegate to the resource
(contracts of u_utf8, assumed here) and translate coordinates; the translation is what is proved.
Serves C12."""
from vx.gen import Unit, Fn
from . import common
from . import u_utf8

P = ['C12']
A = 'src/api/text.rs'

STUBS = r'''
/// R-opaque: the resource; its conversions carry the contracts proved in u_utf8
#[verifier::external_body]
pub struct TextResource { _p: usize }

impl TextResource {
    pub uninterp spec fn txt(&self) -> &str;
    pub open spec fn len(&self) -> int { cps(self.txt()).len() as int }

    #[verifier::external_body]
    pub fn utf8byte(&self, abscursor: usize) -> (r: Result<usize, StamError>)
        ensures r is Ok <==> abscursor <= self.len(), r is Ok ==> Some(r->Ok_0) == cb(self.txt(), abscursor as int),
    { unimplemented!() }

    #[verifier::external_body]
    pub fn utf8byte_to_charpos(&self, bytecursor: usize) -> (r: Result<usize, StamError>)
        ensures
            r is Ok <==> exists|p: int| 0 <= p <= self.len() && cb(self.txt(), p) == Some(bytecursor),
            r is Ok ==> r->Ok_0 <= self.len() && cb(self.txt(), r->Ok_0 as int) == Some(bytecursor),
    { unimplemented!() }

    /// stands for `impl Text for TextResource { fn textlen }`: the length of the text in codepoints
    #[verifier::external_body]
    pub fn textlen(&self) -> (r: usize)
        ensures r == self.len(),
    { unimplemented!() }

    /// stands for Text::subslice_utf8_offset on the resource (pointer arithmetic): the byte offset at which
    /// a slice of this resource's text begins.  Trusted.
    #[verifier::external_body]
    pub fn subslice_utf8_offset(&self, subslice: &str) -> (r: Option<usize>)
        ensures forall|off: usize| #[trigger] slice_at(self.txt(), subslice, off) ==> r == Some(off),
    { unimplemented!() }
}

/// ghost: `sub` is the slice of `text` that begins at byte offset `off`
pub uninterp spec fn slice_at(text: &str, sub: &str, off: usize) -> bool;

/// R-opaque: a text selection with its resource (ResultTextSelection / ResultItem<TextSelection>)
#[verifier::external_body]
pub struct SELF_TYPE<'store> { _p: std::marker::PhantomData<&'store usize> }

impl<'store> SELF_TYPE<'store> {
    pub uninterp spec fn b(&self) -> usize;
    pub uninterp spec fn e(&self) -> usize;
    pub uninterp spec fn res(&self) -> TextResource;
    /// the selection lies inside its resource
    pub open spec fn ok(&self) -> bool { self.b() <= self.e() <= self.res().len() && text_ok(self.res().txt()) }
    /// byte offset of relative position p of this selection, relative to the selection
    pub open spec fn rel_cb(&self, p: int) -> Option<int> {
        if 0 <= p <= self.e() - self.b() { Some(cb(self.res().txt(), self.b() + p).unwrap() - cb(self.res().txt(), self.b() as int).unwrap()) } else { None }
    }

    #[verifier::external_body]
    pub fn begin(&self) -> (r: usize) ensures r == self.b(), { unimplemented!() }
    #[verifier::external_body]
    pub fn end(&self) -> (r: usize) ensures r == self.e(), { unimplemented!() }
    #[verifier::external_body]
    pub fn store(&self) -> (r: &'store TextResource) ensures *r == self.res(), { unimplemented!() }
    /// stands for Text::text on the selection: the slice of the resource text between the byte offsets of begin and end
    #[verifier::external_body]
    pub fn text(&self) -> (r: &'store str)
        requires self.ok(),
        ensures slice_at(self.res().txt(), r, cb(self.res().txt(), self.b() as int).unwrap()),
                blen(r) == cb(self.res().txt(), self.e() as int).unwrap() - cb(self.res().txt(), self.b() as int).unwrap(),
    { unimplemented!() }
}
'''


def emit(u, header, self_type):
    u.trusted_text(STUBS.replace('SELF_TYPE', self_type),
                   f'external_body TextResource conversions (contracts of u_utf8), subslice_utf8_offset (pointer arithmetic), opaque {self_type} with begin/end/store/text')
    SUB = 'self.store().subslice_utf8_offset(self.text())'
    u.impl(A, header, [
        Fn('textlen', props=P, ret='r', requires=[('ok', 'self.ok()')], ensures=[('len', 'r == self.e() - self.b()')]),
        Fn('absolute_cursor', props=P, ret='r', requires=[('fits', 'self.b() + cursor <= usize::MAX')], ensures=[('abs', 'r == self.b() + cursor')]),
        Fn('utf8byte', props=P, ret='r',
           rewrites=[('R-outline', r'self\s*\.store\(\)\s*\.subslice_utf8_offset\(self\.text\(\)\)', SUB, 'opt'),
                     ('R-expect', r'\.expect\("subslice should succeed"\)', '.unwrap()', 'opt')],
           requires=[('ok', 'self.ok()')],
           ensures=[('ok_iff_inside', 'r is Ok <==> abscursor <= self.e() - self.b()'),
                    ('exact', 'r is Ok ==> Some(r->Ok_0 as int) == self.rel_cb(abscursor as int)')]),
        Fn('utf8byte_to_charpos', props=P, ret='r',
           rewrites=[('R-outline', r'self\s*\.store\(\)\s*\.subslice_utf8_offset\(self\.text\(\)\)', SUB, 'opt'),
                     ('R-expect', r'\.expect\("subslice should succeed"\)', '.unwrap()', 'opt'),
                     ('R-outline', r'self\.text\(\)\.len\(\)', 'vx_blen(self.text())', 'opt')],
           requires=[('ok', 'self.ok()')],
           ensures=[('ok_iff_boundary', 'r is Ok <==> exists|p: int| 0 <= p <= self.e() - self.b() && self.rel_cb(p) == Some(bytecursor as int)'),
                    ('exact', 'r is Ok ==> r->Ok_0 <= self.e() - self.b() && self.rel_cb(r->Ok_0 as int) == Some(bytecursor as int)')]),
    ], verus_header=f"impl<'store> {self_type}<'store>")


def build():
    u = Unit('u_subtext', serves=['C12'])
    common.target64(u)
    u.item('src/types.rs', 'enum', 'Cursor', keep_derives=['Debug', 'Clone', 'Copy', 'PartialEq'])
    u.item('src/error.rs', 'enum', 'StamError', keep_variants=['CursorOutOfBounds', 'OtherError'], keep_derives=['Debug'])
    # the abstract text model of u_utf8 (cps, blen, cb, text_ok, vx_blen)
    model = u_utf8.MODEL.split('/// R-outline: stands for the items of')[0]
    u.trusted_text(model, 'abstract text model cps/blen/cb (as in u_utf8), vx_blen')
    emit(u, "impl<'store, 'slf> Text<'store, 'slf> for ResultTextSelection<'store>", 'ResultTextSelection')
    return u


def build2():
    """the second implementation: impl Text for ResultItem<'store, TextSelection> (same contracts)"""
    u = Unit('u_subtext2', serves=['C12'])
    common.target64(u)
    u.item('src/types.rs', 'enum', 'Cursor', keep_derives=['Debug', 'Clone', 'Copy', 'PartialEq'])
    u.item('src/error.rs', 'enum', 'StamError', keep_variants=['CursorOutOfBounds', 'OtherError'], keep_derives=['Debug'])
    model = u_utf8.MODEL.split('/// R-outline: stands for the items of')[0]
    u.trusted_text(model, 'abstract text model cps/blen/cb (as in u_utf8), vx_blen')
    emit(u, "impl<'store, 'slf> Text<'store, 'slf> for ResultItem<'store, TextSelection>", 'ResultItemTextSelection')
    return u

use vstd::prelude::*;
verus! {
#[derive(Debug)]
pub enum StamError { HandleError(&'static str) }
pub trait Handle: Copy + PartialEq + Sized + core::fmt::Debug {
    spec fn idx(&self) -> usize;
    fn as_usize(&self) -> (r: usize) ensures r == self.idx();
}
pub trait Storable: PartialEq + Sized {
    type HandleType: Handle;
}
pub trait Request<T>
where
    T: Storable,
    Self: Sized,
{
    spec fn resolves(&self, store: Seq<Option<T>>) -> Option<T::HandleType>;
    /// Returns the handle for this item, looking it up in the store
    fn to_handle<'store, S>(&self, store: &'store S) -> (r: Option<T::HandleType>)
    where
        S: StoreFor<T>,
        ensures r == self.resolves(store.view_store());
}
pub trait StoreFor<T: Storable>: Sized {
    spec fn view_store(&self) -> Seq<Option<T>>;
    fn store(&self) -> (r: &Vec<Option<T>>) ensures r@ == self.view_store();
    fn store_typeinfo() -> &'static str;

    fn has(&self, item: impl Request<T>) -> (r: bool)
        ensures r == (item.resolves(self.view_store()) matches Some(h) && h.idx() < self.view_store().len())
    {
        if let Some(handle) = item.to_handle(self) {
            self.store().get(handle.as_usize()).is_some()
        } else {
            false
        }
    }

    fn get(&self, item: impl Request<T>) -> (r: Result<&T, StamError>)
        ensures r is Ok <==> (item.resolves(self.view_store()) matches Some(h) && h.idx() < self.view_store().len() && self.view_store()[h.idx() as int] is Some)
    {
        if let Some(handle) = item.to_handle(self) {
            if let Some(Some(item)) = self.store().get(handle.as_usize()) {
                return Ok(item);
            }
        }
        Err(StamError::HandleError(Self::store_typeinfo()))
    }
}
} // verus!
fn main() {}

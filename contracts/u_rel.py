"""U-rel: the relation tests of src/textselection.rs (TextSelectionOperator, TestTextSelection for
TextSelection and TextSelectionSet, leftmost/rightmost).  Serves C13 (and the oracle of C06)."""
import hashlib
import re
from vx.gen import Unit, Fn
from vx.rustsrc import ExtractError, norm_ws
from . import common

P = ['C13', 'C06']
F = 'src/textselection.rs'

CANON_SCAN = 'gap.chars().all(|c| c.is_whitespace())'


def _gap_repl(mm):
    scan = re.sub(r'\s+', ' ', mm.group(3)).strip()
    if scan == CANON_SCAN:
        return f'vx_gap_is_whitespace(resource, {mm.group(1).strip()}, {mm.group(2).strip()})'
    # a scan that is not textually the canonical whitespace scan gets its own uninterpreted
    # predicate: it is not known to be the predicate the specification talks about
    return f'vx_gap_other_scan(resource, {mm.group(1).strip()}, {mm.group(2).strip()})'


GAP_RW = ('R-outline',
          r'if let Ok\(gap\) =\s*resource\.text_by_offset\(&Offset::simple\(([^,]+),\s*([^)]+)\)\)\s*\{(.*?)\}\s*else\s*\{\s*false\s*\}',
          _gap_repl)

TRUSTED = r'''
/// R-opaque: the resource is only passed on to the whitespace-gap test
#[verifier::external_body]
pub struct TextResource { _opaque: usize }

/// R-outline: stands for
///   if let Ok(gap) = resource.text_by_offset(&Offset::simple(a, b)) { gap.chars().all(|c| c.is_whitespace()) } else { false }
/// Trusted: its result is the uninterpreted predicate gap(resource, a, b).
#[verifier::external_body]
pub fn vx_gap_is_whitespace(resource: &TextResource, a: usize, b: usize) -> (r: bool)
    ensures r == gap(resource, a, b),
{ unimplemented!() }

/// a whitespace-gap scan whose text differs from the canonical one: a different, unknown predicate
pub uninterp spec fn gap_other(res: &TextResource, a: usize, b: usize) -> bool;
#[verifier::external_body]
pub fn vx_gap_other_scan(resource: &TextResource, a: usize, b: usize) -> (r: bool)
    ensures r == gap_other(resource, a, b),
{ unimplemented!() }
'''

DERIVED_EQ = r'''
/// the executable `==` on TextSelection is the hand-written `impl PartialEq` of src/textselection.rs (sliced below, under contract):
/// equality of the ranges, whether or not a handle is attached
impl Eq for TextSelection {}
impl vstd::std_specs::cmp::PartialEqSpecImpl for TextSelection {
    open spec fn obeys_eq_spec() -> bool { true }
    open spec fn eq_spec(&self, other: &Self) -> bool { self.begin == other.begin && self.end == other.end }
}
'''

NEG_DEC = '(if negated(*operator) { 1int } else { 0int })'

# anchors R-wrapiter relies on: TextSelectionSet::iter / TextSelectionSetIter::next
WRAPITER_ITER = "pub fn iter<'a>(&'a self) -> TextSelectionSetIter<'a> { TextSelectionSetIter { iter: self.data.iter(), count: 0, len: self.data.len(), } }"
WRAPITER_NEXT = "fn next(&mut self) -> Option<Self::Item> { self.count += 1; self.iter.next() }"


def check_wrapiter_anchor(u):
    rf = u.rf(F)
    hs, o, c = rf.find_impl('impl TextSelectionSet')
    loc = rf.find_fn('iter', (o, c))
    got = re.sub(r'\s+', ' ', re.sub(r'///[^\n]*\n', '', rf.text[loc['start']:loc['end']])).strip()
    if got != WRAPITER_ITER:
        raise ExtractError(f"R-wrapiter anchor lost: TextSelectionSet::iter changed: {got!r}")
    hs, o, c = rf.find_impl("impl<'a> Iterator for TextSelectionSetIter<'a>")
    loc = rf.find_fn('next', (o, c))
    got = re.sub(r'\s+', ' ', rf.text[loc['start']:loc['end']]).strip()
    if got != WRAPITER_NEXT:
        raise ExtractError(f"R-wrapiter anchor lost: TextSelectionSetIter::next changed: {got!r}")
    u.rewrite_log.append(dict(rule='R-wrapiter-anchor', at=f"{F}:{rf.line_of(loc['start'])}", what='TextSelectionSet::iter / TextSelectionSetIter::next text checked'))


def for_self(var, it):
    """R-wrapiter + R-forname: `for VAR in self.iter()` -> `for VAR in vx_it: self.data.iter()`"""
    return ('R-wrapiter', r'for ' + var + r' in ' + it + r'\.iter\(\)', 'for ' + var + ' in vx_it: ' + it + '.data.iter()')


SET_RW = [
    for_self('item', 'self'),
]

# loop invariants for the `for item in self.iter() { if !item.test..(..) { return false; } }` shape
def forall_loop(callspec):
    return dict(invariant=[('prefix', 'forall|i: int| 0 <= i < vx_it.index@ ==> ' + callspec.replace('ITEM', '#[trigger] self.data@[i]'))])


ORDER_SPEC = r'''
/// canonical order of text selections (the Ord impl): by begin, then by end
pub open spec fn ts_le(a: TextSelection, b: TextSelection) -> bool { a.begin < b.begin || (a.begin == b.begin && a.end <= b.end) }
pub open spec fn ts_lt(a: TextSelection, b: TextSelection) -> bool { a.begin < b.begin || (a.begin == b.begin && a.end < b.end) }
pub open spec fn ts_sorted(s: Seq<TextSelection>) -> bool { forall|i: int, j: int| 0 <= i <= j < s.len() ==> ts_le(s[i], s[j]) }
impl TextSelectionSet {
    /// the invariant add() and sort() maintain: a set flagged sorted is in canonical order (which implies the order by
    /// begin that the relation tests rely on)
    pub open spec fn inv_lex(&self) -> bool { self.sorted ==> ts_sorted(self.data@) }
}
pub proof fn lemma_lex_implies_begin(s: Seq<TextSelection>)
    ensures ts_sorted(s) ==> forall|i: int, j: int| 0 <= i <= j < s.len() ==> s[i].begin <= s[j].begin,
{
    if ts_sorted(s) {
        assert forall|i: int, j: int| 0 <= i <= j < s.len() implies s[i].begin <= s[j].begin by { assert(ts_le(s[i], s[j])); }
    }
}
pub proof fn lemma_ts_insert(s: Seq<TextSelection>, pos: int, x: TextSelection)
    requires ts_sorted(s), 0 <= pos <= s.len(),
        forall|j: int| 0 <= j < pos ==> ts_lt(s[j], x),
        forall|j: int| pos <= j < s.len() ==> ts_lt(x, s[j]),
    ensures ts_sorted(s.insert(pos, x)),
        forall|k: int| 0 <= k < s.len() ==> s.insert(pos, x).contains(#[trigger] s[k]),
        forall|k: int| 0 <= k < s.insert(pos, x).len() ==> s.contains(#[trigger] s.insert(pos, x)[k]) || s.insert(pos, x)[k] == x,
        s.insert(pos, x)[pos] == x,
{
    let t = s.insert(pos, x);
    assert forall|i: int, j: int| 0 <= i <= j < t.len() implies ts_le(t[i], t[j]) by {
        let oi = if i < pos { i } else { i - 1 };
        let oj = if j < pos { j } else { j - 1 };
        if i != pos && j != pos { assert(t[i] == s[oi]); assert(t[j] == s[oj]); }
        else if i == pos && j != pos { assert(t[j] == s[oj]); }
        else if j == pos && i != pos { assert(t[i] == s[oi]); }
    }
    assert forall|k: int| 0 <= k < s.len() implies t.contains(#[trigger] s[k]) by {
        if k < pos { assert(t[k] == s[k]); } else { assert(t[k + 1] == s[k]); }
    }
    assert forall|k: int| 0 <= k < t.len() implies s.contains(#[trigger] t[k]) || t[k] == x by {
        if k < pos { assert(s[k] == t[k]); } else if k > pos { assert(s[k - 1] == t[k]); }
    }
}
'''

ADD_END = '''        proof {
            let o = old(self).data@; let n = self.data@;
            if self.sorted { lemma_lex_implies_begin(n); }
            if n.len() == o.len() + 1 && !self.sorted {
                assert(n == o.push(textselection));
                assert(n[o.len() as int] == textselection);
                assert forall|k: int| 0 <= k < o.len() implies n.contains(#[trigger] o[k]) by { assert(n[k] == o[k]); }
                assert forall|k: int| 0 <= k < n.len() implies o.contains(#[trigger] n[k]) || n[k] == textselection by { if k < o.len() { assert(o[k] == n[k]); } }
            }
        }'''

ORDER_TRUSTED = r'''
/// R-outline: stands for `self.data.binary_search(&textselection)`; the body is that expression.  Trusted: std's binary search
/// over the canonical order, on a slice that is in that order (precondition).
#[verifier::external_body]
pub fn vx_ts_binary_search(a: &Vec<TextSelection>, x: &TextSelection) -> (r: Result<usize, usize>)
    requires ts_sorted(a@),
    ensures match r {
        Ok(i) => i < a@.len() && a@[i as int].begin == x.begin && a@[i as int].end == x.end,
        Err(i) => i <= a@.len() && (forall|j: int| 0 <= j < i ==> ts_lt(a@[j], *x)) && (forall|j: int| i <= j < a@.len() ==> ts_lt(*x, a@[j])),
    },
{ unimplemented!() } // a.binary_search(x): the Ord impl of TextSelection is emitted as an inherent `cmp` (R-inherent), verified below against ts_lt

/// R-outline: stands for `ord != Ordering::Equal` (derived PartialEq on std's Ordering carries no Verus specification)
#[verifier::external_body]
pub fn vx_ord_not_equal(ord: Ordering) -> (r: bool)
    ensures r == !(ord == Ordering::Equal),
{ ord != Ordering::Equal }

/// R-outline: `self.data.sort_unstable()`: a permutation in canonical order
#[verifier::external_body]
pub fn vx_ts_sort(a: &mut Vec<TextSelection>)
    ensures ts_sorted(final(a)@), final(a)@.to_multiset() == old(a)@.to_multiset(),
{ unimplemented!() } // a.sort_unstable()
'''


def build():
    u = Unit('u_rel', serves=['C13', 'C06'])
    u.use('use std::cmp::Ordering;')
    common.target64(u)
    check_wrapiter_anchor(u)
    u.item(F, 'struct', 'TextSelectionHandle', keep_derives=['PartialEq', 'Eq', 'Clone', 'Copy', 'PartialOrd', 'Ord'])
    u.item('src/resources.rs', 'struct', 'TextResourceHandle', keep_derives=['PartialEq', 'Eq', 'Clone', 'Copy', 'PartialOrd', 'Ord'])
    u.item(F, 'struct', 'TextSelection', keep_derives=['Clone', 'Copy'])
    u.trusted_text(DERIVED_EQ, 'PartialEqSpecImpl for TextSelection: `==` in executable code means the sliced `eq` (same begin and end)')
    u.impl(F, 'impl PartialEq for TextSelection', [
        Fn('eq', props=P, ret='r', ensures=[('ranges', 'r == (self.begin == other.begin && self.end == other.end)')]),
    ])
    u.item(F, 'struct', 'TextSelectionSet', keep_derives=['Clone'],
           rewrites=[('R-smallvec', r'SmallVec<\[TextSelection; 1\]>', 'Vec<TextSelection>'),
                     ('R-vis', r'\bdata:', 'pub data:'), ('R-vis', r'\bresource:', 'pub resource:'), ('R-vis', r'\bsorted:', 'pub sorted:')])
    u.item(F, 'enum', 'TextSelectionOperator', keep_derives=['Clone', 'Copy', 'PartialEq'])
    u.trusted_text(TRUSTED, 'external_body TextResource (opaque) and vx_gap_is_whitespace: whitespace-gap scan is the uninterpreted predicate gap(resource,a,b) (R-outline)')
    u.item(F, 'const', 'WHITESPACE_LIMIT', rewrites=[('R-vis', r'^const ', 'pub const ')])
    u.spec_file('specs/relations.rs')
    u.canary('canary_u_rel', '''
/// vacuity guard: false by one token (Before is not its own converse); must FAIL
pub proof fn canary_u_rel(a: TextSelection, b: TextSelection, res: &TextResource)
    ensures rel(TextSelectionOperator::Before { all: false, negate: false, limit: None }, a, b, res)
         == rel(TextSelectionOperator::Before { all: false, negate: false, limit: None }, b, a, res),
{
}
''')

    # ------------------------------------------------------------------ operator modifiers
    same = 'with_mods(r, true, true) == with_mods(*self, true, true)'
    u.impl(F, 'impl TextSelectionOperator', [
        Fn('all', props=P, ret='r', ensures=[('is_all', 'r == is_all(*self)')]),
        Fn('negate', props=P, ret='r', ensures=[('negated', 'r == negated(*self)')]),
        Fn('toggle_negate', props=P, ret='r',
           ensures=[('flips_negate', 'negated(r) == !negated(*self)'), ('keeps_all', 'is_all(r) == is_all(*self)'),
                    ('keeps_rest', same), ('exact', 'r == with_mods(*self, is_all(*self), !negated(*self))')]),
        Fn('toggle_all', props=P, ret='r',
           ensures=[('flips_all', 'is_all(r) == !is_all(*self)'), ('keeps_negate', 'negated(r) == negated(*self)'),
                    ('keeps_rest', same), ('exact', 'r == with_mods(*self, !is_all(*self), negated(*self))')]),
        Fn('with_limit', props=P, ret='r',
           ensures=[('keeps_mods', 'negated(r) == negated(self) && is_all(r) == is_all(self)'),
                    ('sets_limit', '''match self {
                        TextSelectionOperator::Embedded { all, negate, .. } => r == TextSelectionOperator::Embedded { all, negate, limit: Some(limit) },
                        TextSelectionOperator::Before { all, negate, .. } => r == TextSelectionOperator::Before { all, negate, limit: Some(limit) },
                        TextSelectionOperator::After { all, negate, .. } => r == TextSelectionOperator::After { all, negate, limit: Some(limit) },
                        _ => r == self }''')]),
    ])

    # ------------------------------------------------------------------ TextSelectionSet helpers
    u.spec(r'''
impl TextSelectionSet {
    /// representation invariant: the `sorted` flag implies order by begin
    pub open spec fn inv(&self) -> bool {
        self.sorted ==> forall|i: int, j: int| 0 <= i <= j < self.data@.len() ==> self.data@[i].begin <= self.data@[j].begin
    }
}
''', 'contracts/u_rel.py:inv')
    u.impl(F, 'impl TextSelection', [
        Fn('begin', props=P, ret='r', ensures=[('begin', 'r == self.begin')]),
        Fn('end', props=P, ret='r', ensures=[('end', 'r == self.end')]),
        # the overlap part of two ranges, agreeing with the Overlaps relation of appendix A
        Fn('intersection', props=['C13'], ret='r',
           requires=[('wf', 'wf(*self) && wf(*other)')],
           ensures=[('some_iff_overlaps', 'r is Some <==> ((self.begin < other.end && other.begin < self.end) || embeds_s(*self, *other) || embeds_s(*other, *self))'),
                    ('part', 'r is Some ==> r.unwrap().0.begin == (if self.begin >= other.begin { self.begin } else { other.begin }) && r.unwrap().0.end == (if self.end <= other.end { self.end } else { other.end }) && wf(r.unwrap().0) && r.unwrap().0.intid is None'),
                    ('nothing_left_iff_embedded', 'r is Some ==> (r.unwrap().1 is None <==> embeds_s(*other, *self)) && (r.unwrap().2 is None <==> embeds_s(*self, *other))'),
                    ('remainders', '''r is Some ==> (match r.unwrap().1 { Some(x) => x.begin < x.end && embeds_s(*self, x) && (x.end <= other.begin || other.end <= x.begin) && (x.end == r.unwrap().0.begin || x.begin == r.unwrap().0.end), None => true })
                                   && (match r.unwrap().2 { Some(x) => x.begin < x.end && embeds_s(*other, x) && (x.end <= self.begin || self.end <= x.begin) && (x.end == r.unwrap().0.begin || x.begin == r.unwrap().0.end), None => true })''')]),
    ])
    u.spec(ORDER_SPEC, 'contracts/u_rel.py:ORDER_SPEC')
    u.trusted_text(ORDER_TRUSTED, 'external_body outlines: [TextSelection]::binary_search on a slice in canonical order and sort_unstable (std semantics over the Ord impl of TextSelection: begin, then end)')
    u.impl(F, 'impl Ord for TextSelection', [
        Fn('cmp', props=['C13'], ret='r',
           rewrites=[('R-outline', r'ord != Ordering::Equal', 'vx_ord_not_equal(ord)')],
           ensures=[('canonical_order', '(r == Ordering::Less <==> ts_lt(*self, *other)) && (r == Ordering::Greater <==> ts_lt(*other, *self)) && (r == Ordering::Equal <==> (self.begin == other.begin && self.end == other.end))')]),
    ], verus_header='impl TextSelection')
    u.impl(F, 'impl TextSelectionSet', [
        # C13 (precondition side): the sorted flag the set tests rely on is established by sort() and kept by add()
        # R-chain: add() returns its receiver for chaining; emitted as returning nothing (a returned `&mut Self` would make the
        # receiver's final value depend on the caller)
        Fn('add', props=['C13'],
           sig_rewrites=[('R-chain', r'\s*->\s*&mut Self', '')],
           # R-brace: the expression of one match arm is put in braces so that a proof step can precede it
           rewrites=[('R-outline', r'self\.data\.binary_search\(&textselection\)', 'vx_ts_binary_search(&self.data, &textselection)'),
                     ('R-brace', r'Err\(pos\) => self\.data\.insert\(pos, textselection\),', 'Err(pos) => { proof { lemma_ts_insert(self.data@, pos as int, textselection); } self.data.insert(pos, textselection) }'),
                     ('R-chain', r'(?m)^\s*self\s*\}\s*\Z', ' '.join(ADD_END.split()) + '\n    }')],
           requires=[('inv', 'old(self).inv_lex()')],
           ensures=[('keeps_order', 'final(self).inv_lex() && final(self).inv() && final(self).sorted == old(self).sorted'),
                    ('has_it', 'exists|k: int| 0 <= k < final(self).data@.len() && final(self).data@[k].begin == textselection.begin && final(self).data@[k].end == textselection.end'),
                    ('keeps_members', 'forall|k: int| 0 <= k < old(self).data@.len() ==> final(self).data@.contains(#[trigger] old(self).data@[k])'),
                    ('nothing_else', 'forall|k: int| 0 <= k < final(self).data@.len() ==> old(self).data@.contains(#[trigger] final(self).data@[k]) || final(self).data@[k] == textselection')]),
        Fn('sort', props=['C13'],
           rewrites=[('R-outline', r'self\.data\.sort_unstable\(\);', 'vx_ts_sort(&mut self.data);')],
           requires=[('inv', 'old(self).inv_lex()')],
           after=[('self.sorted = true;', 'proof { lemma_lex_implies_begin(self.data@); }')],
           prologue='proof { lemma_lex_implies_begin(self.data@); }',
           ensures=[('sorted', 'final(self).sorted && final(self).inv_lex() && final(self).inv()'),
                    ('permutation', 'final(self).data@.to_multiset() == old(self).data@.to_multiset()')]),
        Fn('len', props=P, ret='r', ensures=[('len', 'r == self.data@.len()')]),
        Fn('is_empty', props=P, ret='r', ensures=[('empty', 'r == (self.data@.len() == 0)')]),
        Fn('leftmost', props=P, ret='r', rewrites=SET_RW,
           requires=[('inv', 'self.inv()')],
           ensures=[('some_iff', 'r.is_some() == (self.data@.len() > 0)'),
                    ('member', 'r.is_some() ==> self.data@.contains(*r.unwrap())'),
                    ('min_begin', 'r.is_some() ==> r.unwrap().begin == min_begin(self.data@)')],
           loops={0: dict(invariant=[
               ('none_iff', 'leftmost.is_none() == (vx_it.index@ == 0)'),
               ('member', 'leftmost.is_some() ==> exists|k: int| 0 <= k < vx_it.index@ && self.data@[k] == *leftmost.unwrap()'),
               ('lower', 'leftmost.is_some() ==> forall|k: int| 0 <= k < vx_it.index@ ==> leftmost.unwrap().begin <= #[trigger] self.data@[k].begin'),
           ])},
           before=[('self.data.get(0)', 'proof { assert(is_min_begin(self.data@, self.data@[0].begin as int)); lemma_min_unique(self.data@, self.data@[0].begin as int); }'),
                   (r're:(?m)^ +leftmost\n', 'proof { if leftmost.is_some() { let w = choose|k: int| 0 <= k < self.data@.len() && self.data@[k] == *leftmost.unwrap(); assert(self.data@[w].begin == leftmost.unwrap().begin); assert(is_min_begin(self.data@, leftmost.unwrap().begin as int)); lemma_min_unique(self.data@, leftmost.unwrap().begin as int); } }')],
           ),
        Fn('rightmost', props=P, ret='r', rewrites=SET_RW,
           ensures=[('some_iff', 'r.is_some() == (self.data@.len() > 0)'),
                    ('member', 'r.is_some() ==> self.data@.contains(*r.unwrap())'),
                    ('max_end', 'r.is_some() ==> r.unwrap().end == max_end(self.data@)')],
           loops={0: dict(invariant=[
               ('none_iff', 'rightmost.is_none() == (vx_it.index@ == 0)'),
               ('member', 'rightmost.is_some() ==> exists|k: int| 0 <= k < vx_it.index@ && self.data@[k] == *rightmost.unwrap()'),
               ('upper', 'rightmost.is_some() ==> forall|k: int| 0 <= k < vx_it.index@ ==> rightmost.unwrap().end >= #[trigger] self.data@[k].end'),
           ])},
           before=[(r're:(?m)^ +rightmost\n', 'proof { if rightmost.is_some() { let w = choose|k: int| 0 <= k < self.data@.len() && self.data@[k] == *rightmost.unwrap(); assert(self.data@[w].end == rightmost.unwrap().end); assert(is_max_end(self.data@, rightmost.unwrap().end as int)); lemma_max_unique(self.data@, rightmost.unwrap().end as int); } }')]),
    ])

    # ------------------------------------------------------------------ the four relation tests
    # R-inherent: `impl TestTextSelection for X` is emitted as `impl X` (trait membership dropped;
    # Verus would otherwise need the requires on the trait declaration).
    REF_RW = ('R-wrapiter', r'for reftextsel in refset\.iter\(\)', 'for reftextsel in vx_it: refset.data.iter()')
    OTHER_RW = ('R-wrapiter', r'for other in refset\.iter\(\)', 'for other in vx_it: refset.data.iter()')
    u.impl(F, 'impl TestTextSelection for TextSelection', [
        Fn('test', props=P, ret='r', rewrites=[GAP_RW],
           requires=[('wf_self', 'wf(*self)'), ('wf_ref', 'wf(*reftextsel)')],
           ensures=[('equals_spec', 'r == rel(*operator, *self, *reftextsel, resource)')],
           decreases=NEG_DEC),
        Fn('test_set', props=P, ret='r', rewrites=[GAP_RW, REF_RW, OTHER_RW,
                                                   ('R-typeann', r'let mut leftmost = None;', 'let mut leftmost: Option<usize> = None;'),
                                                   ('R-typeann', r'let mut rightmost = None;', 'let mut rightmost: Option<usize> = None;')],
           requires=[('wf_self', 'wf(*self)'), ('wf_ref', 'set_wf(refset.data@)'), ('inv_ref', 'refset.inv()')],
           ensures=[('equals_spec', 'r == s1(*operator, *self, refset.data@, resource)')],
           decreases=NEG_DEC,
           loops={
               0: dict(invariant=[('none_so_far', 'forall|j: int| 0 <= j < vx_it.index@ ==> !rel_pos(*operator, *self, #[trigger] refset.data@[j], resource)'),
                                  ('shape', '!negated(*operator) && !(operator is SameRange) && (is_all(*operator) ==> (operator is Equals || operator is InSet))'),
                                  ('wf', 'wf(*self) && set_wf(refset.data@)')]),
               1: dict(invariant=[('all_so_far', 'forall|j: int| 0 <= j < vx_it.index@ ==> rel_pos(*operator, *self, #[trigger] refset.data@[j], resource)'),
                                  ('shape', 'is_all(*operator) && !negated(*operator) && (operator is Overlaps || operator is Embeds || operator is Embedded || operator is Before || operator is After)'),
                                  ('wf', 'wf(*self) && set_wf(refset.data@)')]),
               2: dict(invariant=[('none_iff', 'leftmost.is_none() == (vx_it.index@ == 0)'),
                                  ('member', 'leftmost.is_some() ==> exists|k: int| 0 <= k < vx_it.index@ && #[trigger] refset.data@[k].begin == leftmost.unwrap()'),
                                  ('lower', 'leftmost.is_some() ==> forall|k: int| 0 <= k < vx_it.index@ ==> leftmost.unwrap() <= #[trigger] refset.data@[k].begin')]),
               3: dict(invariant=[('none_iff', 'rightmost.is_none() == (vx_it.index@ == 0)'),
                                  ('member', 'rightmost.is_some() ==> exists|k: int| 0 <= k < vx_it.index@ && #[trigger] refset.data@[k].end == rightmost.unwrap()'),
                                  ('upper', 'rightmost.is_some() ==> forall|k: int| 0 <= k < vx_it.index@ ==> rightmost.unwrap() >= #[trigger] refset.data@[k].end')]),
           },
           before=[('if !allow_whitespace {\n                    Some(self.end) == leftmost', 'proof { assert(is_min_begin(refset.data@, leftmost.unwrap() as int)); lemma_min_unique(refset.data@, leftmost.unwrap() as int); }'),
                   ('if !allow_whitespace {\n                    Some(self.begin) == rightmost', 'proof { assert(is_max_end(refset.data@, rightmost.unwrap() as int)); lemma_max_unique(refset.data@, rightmost.unwrap() as int); }')],
           ),
    ], verus_header='impl TextSelection')

    def loop_t(shape):
        return dict(invariant=[('prefix', 'forall|i: int| 0 <= i < vx_it.index@ ==> rel_pos(*operator, #[trigger] self.data@[i], *reftextsel, resource)'),
                               ('shape', shape),
                               ('wf', 'set_wf(self.data@) && wf(*reftextsel)')])

    def loop_s(shape):
        return dict(invariant=[('prefix', 'forall|i: int| 0 <= i < vx_it.index@ ==> s1_pos(*operator, #[trigger] self.data@[i], refset.data@, resource)'),
                               ('shape', shape),
                               ('wf', 'set_wf(self.data@) && set_wf(refset.data@) && refset.inv()')])
    NOT_BOUND = '!negated(*operator) && !subject_by_bound(*operator)'
    SET_RW2 = SET_RW
    BOUND_HINT = 'proof { lemma_min_begin(self.data@); lemma_max_end(self.data@); }'
    u.impl(F, 'impl TestTextSelection for TextSelectionSet', [
        Fn('test', props=P, ret='r', rewrites=SET_RW,
           requires=[('wf_self', 'set_wf(self.data@)'), ('inv_self', 'self.inv()'), ('wf_ref', 'wf(*reftextsel)')],
           ensures=[('equals_spec', 'r == t1(*operator, self.data@, *reftextsel, resource)')],
           decreases=NEG_DEC,
           prologue=BOUND_HINT if False else None,
           loops={0: loop_t(NOT_BOUND), 1: loop_t(NOT_BOUND), 2: loop_t(NOT_BOUND)}),
        Fn('test_set', props=P, ret='r', rewrites=SET_RW2,
           requires=[('wf_self', 'set_wf(self.data@)'), ('inv_self', 'self.inv()'), ('wf_ref', 'set_wf(refset.data@)'), ('inv_ref', 'refset.inv()')],
           ensures=[('equals_spec', 'r == s2(*operator, self.data@, refset.data@, resource)')],
           decreases=NEG_DEC,
           loops={0: loop_s(NOT_BOUND + ' && self.data@.len() == refset.data@.len()'), 1: loop_s(NOT_BOUND + ' && !(operator is Equals)'), 2: loop_s(NOT_BOUND + ' && !(operator is Equals)')}),
    ], verus_header='impl TextSelectionSet')
    return u

"""U-annotate: AnnotationStore::annotate (src/annotation.rs) and the text-selector arm of
AnnotationStore::selector (src/annotationstore.rs) - what a failing call may leave behind.  Serves C14."""
from vx.gen import Unit, Fn
from . import common

P = ['C14']
A = 'src/annotation.rs'
AS = 'src/annotationstore.rs'

STUBS = r'''
/// R-err
#[verifier::external_body]
pub fn vx_msg() -> String { String::new() }

/// minimal stand-in for the Storable trait: only the associated handle type is needed by BuildItem
pub trait Storable { type HandleType; }

/// R-opaque builder / item types: annotate() only passes them on
#[verifier::external_body]
pub struct AnnotationDataBuilder<'a> { _p: std::marker::PhantomData<&'a usize> }
#[verifier::external_body]
pub struct SelectorBuilder<'a> { _p: std::marker::PhantomData<&'a usize> }
#[verifier::external_body]
pub struct Selector { _p: usize }
impl<'a> SelectorBuilder<'a> {
    /// ghost: this builder describes a complex (multi/composite/directional) selector
    pub uninterp spec fn complex(&self) -> bool;
    #[verifier::external_body]
    pub fn is_complex(&self) -> (r: bool) ensures r == self.complex(), { unimplemented!() }
}
impl Selector {
    pub uninterp spec fn scomplex(&self) -> bool;
    #[verifier::external_body]
    pub fn is_complex(&self) -> (r: bool) ensures r == self.scomplex(), { unimplemented!() }
}
#[verifier::external_body]
pub struct Annotation { _p: usize }
impl Storable for Annotation { type HandleType = AnnotationHandle; }
impl Annotation {
    #[verifier::external_body]
    pub fn new(id: Option<String>, target: Selector, data: DataVec) -> Annotation { unimplemented!() }
}

/// R-closure-msg: stands for `|err| StamError::BuildError(Box::new(err), "..")`
#[verifier::external_body]
pub fn vx_build_err(err: StamError) -> StamError { unimplemented!() }

/// R-opaque: the store, seen through three ghost "versions": text side (text selections in resources),
/// data side (datasets, keys, data) and the annotations themselves
#[verifier::external_body]
pub struct AnnotationStore { _p: usize }

impl AnnotationStore {
    pub uninterp spec fn tv(&self) -> int;
    pub uninterp spec fn dv(&self) -> int;
    pub uninterp spec fn av(&self) -> int;
    /// ghost: the target builder resolves in this store
    pub uninterp spec fn selector_ok(s: AnnotationStore, b: SelectorBuilder) -> bool;

    /// assumed contract of AnnotationStore::selector: touches only the text side, and nothing when it fails
    /// (for the text-selector arm this is what selector__text below proves; complex selectors are assumed)
    #[verifier::external_body]
    pub fn selector(&mut self, item: SelectorBuilder) -> (r: Result<Selector, StamError>)
        ensures r is Ok <==> Self::selector_ok(*old(self), item),
                r is Ok ==> r->Ok_0.scomplex() == item.complex(),
                final(self).dv() == old(self).dv() && final(self).av() == old(self).av(),
                r is Err ==> final(self).tv() == old(self).tv(),
    { unimplemented!() }

    /// assumed contract of AnnotationStore::insert_data: touches only the data side (and may do so even when it fails)
    #[verifier::external_body]
    pub fn insert_data(&mut self, dataitem: AnnotationDataBuilder) -> (r: Result<(AnnotationDataSetHandle, AnnotationDataHandle), StamError>)
        ensures final(self).tv() == old(self).tv() && final(self).av() == old(self).av(),
    { unimplemented!() }

    /// assumed contract of StoreFor<Annotation>::insert (generic proof in u_store): nothing changes on failure
    #[verifier::external_body]
    pub fn insert(&mut self, item: Annotation) -> (r: Result<AnnotationHandle, StamError>)
        ensures final(self).tv() == old(self).tv() && final(self).dv() == old(self).dv(),
                r is Err ==> final(self).av() == old(self).av(),
    { unimplemented!() }
}
'''


def build():
    u = Unit('u_annotate', serves=['C14'])
    common.target64(u)
    common.handle_trait(u, P)
    for h in ('AnnotationHandle', 'AnnotationDataSetHandle', 'AnnotationDataHandle'):
        common.handle_impl(u, h, P)
    u.item('src/error.rs', 'enum', 'StamError', keep_variants=['NoTarget', 'BuildError', 'WrongSelectorType', 'OtherError'], keep_derives=['Debug'])
    u.item(A, 'type', 'DataVec')
    u.trusted_text(STUBS, 'external_body: opaque AnnotationStore with assumed contracts of selector / insert_data / insert over ghost text/data/annotation versions; opaque builders; vx_build_err')
    u.item('src/store.rs', 'enum', 'BuildItem', keep_derives=[])
    u.item(A, 'struct', 'AnnotationBuilder', keep_derives=[])
    UNCH = 'final(self).tv() == old(self).tv() && final(self).dv() == old(self).dv() && final(self).av() == old(self).av()'
    u.impl(A, 'impl AnnotationStore', [
        Fn('annotate', props=P, ret='r',
           rewrites=[('R-closure-msg', r'\.map_err\(\|err\| \{\s*StamError::BuildError\(\s*Box::new\(err\),\s*"[^"]*",?\s*\)\s*\}\)', '.map_err(vx_build_err)')],
           ensures=[
               ('no_target_no_change', f'builder.target is None ==> r is Err && {UNCH}'),
               ('target_resolved_first', f'builder.target is Some && !AnnotationStore::selector_ok(*old(self), builder.target.unwrap()) ==> r is Err && {UNCH}'),
               ('no_annotation_on_error', 'r is Err ==> final(self).av() == old(self).av()'),
               ('atomic', f'r is Err ==> {UNCH}'),
           ],
           loops={0: dict(invariant=[('frame', 'self.tv() == vx_mid.tv() && self.av() == old(self).av()'),
                                     ('resolved', 'vx_target is Some && AnnotationStore::selector_ok(*old(self), vx_target.unwrap()) && vx_target == builder.target')])},
           prologue='let ghost vx_target = builder.target;',
           before=[('let mut data = DataVec::with_capacity(builder.data.len());', 'let ghost vx_mid = *self;')],
           known=['atomic']),
    ])
    # the first loop of AnnotationStore::subselectors (resolution of the parts of a complex selector), as a region
    u.trusted_text('''
/// R-outline: stands for `builders.iter().any(|builder| builder.is_complex())`; the body is that expression (closures carry no contract)
#[verifier::external_body]
pub fn vx_any_complex(builders: &Vec<SelectorBuilder>) -> (r: bool)
    ensures r == (exists|i: int| 0 <= i < builders@.len() && (#[trigger] builders@[i]).complex()),
{ builders.iter().any(|builder| builder.is_complex()) }
''', 'external_body vx_any_complex: Iterator::any over is_complex (std semantics)')
    SIG = 'fn subselectors__resolve(&mut self, builders: Vec<SelectorBuilder>) -> Result<Vec<Selector>, StamError>'
    u.impl(AS, 'impl AnnotationStore', [
        Fn('subselectors', emit_name='subselectors__resolve', props=P, ret='r',
           region=('let mut tmp = Vec::with_capacity(builders.len());', 'if tmp.len() == 1 {', SIG, '        Ok(tmp)'),
           rewrites=[('R-forname', r'for builder in builders \{', 'for builder in vx_it: builders {'),
                     # R-outline: the closure-taking `any` (std semantics: some element satisfies the predicate)
                     ('R-outline', r'builders\.iter\(\)\.any\(\|builder\| builder\.is_complex\(\)\)', 'vx_any_complex(&builders)', 'opt')],
           ensures=[('nested_rejected', '(exists|i: int| 0 <= i < builders@.len() && (#[trigger] builders@[i]).complex()) ==> r is Err'),
                    # C14: a nested complex selector is rejected before anything is resolved, wherever it stands
                    ('nested_no_change', f'(exists|i: int| 0 <= i < builders@.len() && (#[trigger] builders@[i]).complex()) ==> r is Err && {UNCH}'),
                    ('only_text_side', 'final(self).dv() == old(self).dv() && final(self).av() == old(self).av()')],
           loops={r'vx_it: builders\b': dict(invariant=[
               ('none_complex_so_far', 'forall|i: int| 0 <= i < vx_it.index@ ==> !(#[trigger] builders@[i]).complex()'),
               ('no_nested_part', 'forall|i: int| 0 <= i < builders@.len() ==> !(#[trigger] builders@[i]).complex()'),
               ('frame', 'self.dv() == old(self).dv() && self.av() == old(self).av()'),
               ('first', 'vx_it.index@ == 0 ==> self.tv() == old(self).tv()')])}),
    ])
    return u

"""U-storedata: AnnotationStore::insert_data (src/annotation.rs) - the data item of a builder goes into the dataset the
builder names; a dataset that does not exist yet is created on the fly, under the name given (or the default name).
Verified against the contracts of the generic store layer (StoreFor::{get_mut, insert}, proved in u_store) and of
AnnotationDataSet::insert_data (proved in u_dataset).  Serves C10 (implicit dataset creation) and C14 (what a failing
call may leave behind is stated, see the known finding K1)."""
from vx.gen import Unit, Fn
from . import common
from . import store_common as sc

P = ['C10', 'C14']
AS = 'src/annotationstore.rs'
A = 'src/annotation.rs'


def opaque_storable(name, handle, carries_id='true'):
    """an item type this unit only passes around: opaque, with the Storable members assumed"""
    return f'''
#[verifier::external_body]
pub struct {name} {{ _p: usize }}
impl {name} {{
    pub uninterp spec fn sid(&self) -> Option<Seq<char>>;
    pub uninterp spec fn shandle(&self) -> Option<{handle}>;
}}
impl PartialEq for {name} {{
    #[verifier::external_body]
    fn eq(&self, other: &Self) -> bool {{ unimplemented!() }}
}}
impl TypeInfo for {name} {{
    uninterp spec fn spec_typeinfo() -> Type;
    #[verifier::external_body]
    fn typeinfo() -> (r: Type) {{ unimplemented!() }}
}}
impl Storable for {name} {{
    type HandleType = {handle};
    open spec fn spec_handle(&self) -> Option<{handle}> {{ self.shandle() }}
    open spec fn spec_id(&self) -> Option<Seq<char>> {{ self.sid() }}
    open spec fn spec_carries_id() -> bool {{ {carries_id} }}
    uninterp spec fn same_content(&self, other: &Self) -> bool;
    #[verifier::external_body]
    proof fn same_content_refl(a: Self) {{}}
    #[verifier::external_body]
    proof fn same_content_trans(a: Self, b: Self, c: Self) {{}}
    #[verifier::external_body]
    fn handle(&self) -> (r: Option<{handle}>) {{ unimplemented!() }}
    #[verifier::external_body]
    fn id(&self) -> (r: Option<&str>) {{ unimplemented!() }}
    #[verifier::external_body]
    fn with_handle(self, handle: {handle}) -> (r: Self) {{ unimplemented!() }}
    #[verifier::external_body]
    fn generate_id(self, idmap: Option<&mut IdMap<{handle}>>) -> (r: Self) {{ unimplemented!() }}
    #[verifier::external_body]
    fn merge(&mut self, other: Self) -> (r: Result<(), StamError>) {{ unimplemented!() }}
}}
'''


STUBS = r'''
/// R-opaque: data values are only passed on
#[verifier::external_body]
pub struct DataValue { _opaque: usize }

/// what AnnotationDataSet::insert_data(id, key, value, safety) does to a dataset (its contract is proved in u_dataset; here it
/// is an uninterpreted relation between the dataset before, the arguments, the dataset after and the result)
pub uninterp spec fn ds_inserted(pre: AnnotationDataSet, id: BuildItem<AnnotationData>, key: BuildItem<DataKey>, value: DataValue, safety: bool, post: AnnotationDataSet, r: Result<AnnotationDataHandle, StamError>) -> bool;

impl AnnotationDataSet {
    /// ghost: a dataset as AnnotationDataSet::new makes it (no id, no handle, no keys, no data)
    pub uninterp spec fn is_new(&self) -> bool;

    /// stands for AnnotationDataSet::new (src/annotationdataset.rs)
    #[verifier::external_body]
    pub fn new(config: Config) -> (r: Self)
        ensures r.sid() is None, r.shandle() is None, r.is_new(),
    { unimplemented!() }

    /// stands for Storable::with_id on a dataset: sets the public id, nothing else
    #[verifier::external_body]
    pub fn with_id(self, id: String) -> (r: Self)
        ensures r.sid() == Some(id@), r.shandle() == self.shandle(), self.same_content(&r),
    { unimplemented!() }

    /// stands for AnnotationDataSet::insert_data, instantiated as in u_dataset; it never touches the dataset's own id or handle
    #[verifier::external_body]
    pub fn insert_data<'a>(&mut self, id: BuildItem<'a, AnnotationData>, key: BuildItem<'a, DataKey>, value: DataValue, safety: bool) -> (r: Result<AnnotationDataHandle, StamError>)
        ensures final(self).sid() == old(self).sid(), final(self).shandle() == old(self).shandle(),
                ds_inserted(*old(self), id, key, value, safety, *final(self), r),
    { unimplemented!() }
}

/// R-outline: `self.config().clone()` (derived Clone of Config)
#[verifier::external_body]
pub fn vx_clone_config(c: &Config) -> (r: Config)
    ensures r == *c,
{ unimplemented!() }
'''

GHOST = '''
    type Rest = ();
    open spec fn view_store(&self) -> Seq<Option<AnnotationDataSet>> { self.annotationsets@ }
    open spec fn view_idmap(&self) -> Option<Map<Seq<char>, AnnotationDataSetHandle>> { Some(self.dataset_idmap.data@) }
    open spec fn view_temp_ids(&self) -> bool { self.dataset_idmap.resolve_temp_ids }
    open spec fn view_config(&self) -> Config { self.config }
    open spec fn view_rest(&self) -> () { () }
    open spec fn cascade_free() -> bool { false }
    open spec fn preinsert_ok(rest: (), item: AnnotationDataSet) -> bool { true }
    open spec fn inserted_ok(rest: (), item: AnnotationDataSet) -> bool { true }
    open spec fn inserted_post(store: Seq<Option<AnnotationDataSet>>, pre_rest: (), post_rest: (), handle: AnnotationDataSetHandle, ok: bool) -> bool { ok }
    open spec fn preremove_post(pre_store: Seq<Option<AnnotationDataSet>>, pre_rest: (), post_store: Seq<Option<AnnotationDataSet>>, post_rest: (), handle: AnnotationDataSetHandle, ok: bool) -> bool { true }
    uninterp spec fn preremove_ok(s: Self, handle_idx: usize) -> bool;
    /// (assumed) the callbacks of the dataset store of an AnnotationStore: preinsert hands the new dataset the store's
    /// configuration (identity and content kept), inserted is the default (nothing), preremove is the cascade of u_cascade2
    #[verifier::external_body]
    fn preinsert(&self, item: &mut AnnotationDataSet) -> (r: Result<(), StamError>) { unimplemented!() }
    #[verifier::external_body]
    fn inserted(&mut self, handle: AnnotationDataSetHandle) -> (r: Result<(), StamError>) { unimplemented!() }
    #[verifier::external_body]
    fn preremove(&mut self, handle: AnnotationDataSetHandle) -> (r: Result<(), StamError>) { unimplemented!() }
'''

SETS0 = 'old(self).annotationsets@'
SETS1 = 'final(self).annotationsets@'
DEN = "bi_denotes::<AnnotationDataSet>(dataitem.dataset, old(self).annotationsets@, Some(old(self).dataset_idmap.data@), old(self).dataset_idmap.resolve_temp_ids)"
HIT = f"({DEN} is Some && live({SETS0}, {DEN}.unwrap() as int))"
# the name a dataset created on the fly gets: the requested id, or the default name when the request carries none
NAME = "(match dataitem.dataset { BuildItem::Id(s) => s@, BuildItem::IdRef(s) => s@, _ => \"default-annotationset\"@ })"
BYNAME = f"resolves_to::<AnnotationDataSet>({SETS0}, old(self).dataset_idmap.data@, old(self).dataset_idmap.resolve_temp_ids, {NAME})"
NAMEHIT = f"({BYNAME} is Some && live({SETS0}, {BYNAME}.unwrap() as int))"
# the dataset the data item goes into
TARGET = f"(if {HIT} {{ {DEN}.unwrap() as int }} else if {NAMEHIT} {{ {BYNAME}.unwrap() as int }} else {{ {SETS0}.len() as int }})"
# a dataset named by a handle or a reference that does not resolve denotes no dataset at all: the request is refused
REFUSED = f"(!{HIT} && (dataitem.dataset is Handle || dataitem.dataset is Ref))"
EXISTING = f"({HIT} || (!{REFUSED} && {NAMEHIT}))"


def build():
    u = Unit('u_storedata', serves=['C10', 'C14'])
    common.target64(u)
    common.handle_trait(u, P)
    for h in ('AnnotationDataSetHandle', 'AnnotationDataHandle', 'DataKeyHandle'):
        common.handle_impl(u, h, P)
    sc.emit_storefor(u, P, with_builditem=True)
    u.trusted_text(opaque_storable('AnnotationDataSet', 'AnnotationDataSetHandle') + opaque_storable('AnnotationData', 'AnnotationDataHandle') + opaque_storable('DataKey', 'DataKeyHandle'),
                   'opaque item types AnnotationDataSet / AnnotationData / DataKey with their Storable members assumed (proved for the real types in u_dataset)')
    u.trusted_text(STUBS, 'external_body: AnnotationDataSet::{new, with_id, insert_data} (contracts assumed; insert_data proved in u_dataset as the relation it is given here), DataValue opaque, Config::clone')
    u.item('src/annotationdata.rs', 'struct', 'AnnotationDataBuilder', keep_derives=[],
           rewrites=[('R-vis', r'\b(id|dataset|key|value):', r'pub \1:')] if False else [])
    u.item(AS, 'struct', 'AnnotationStore', keep_fields=['config', 'annotationsets', 'dataset_idmap'], keep_derives=[])
    u.impl(AS, 'impl Configurable for AnnotationStore', [Fn('config', props=P, ret='r')],
           extra='\n    open spec fn spec_config(&self) -> Config { self.config }\n')
    u.impl(AS, 'impl StoreFor<AnnotationDataSet> for AnnotationStore', [
        Fn('store', props=P, ret='r'), Fn('store_mut', props=P, ret='r'), Fn('idmap', props=P, ret='r'), Fn('idmap_mut', props=P, ret='r'),
        Fn('store_typeinfo', props=P, ret='r'),
        Fn('config', props=P, ret='r', from_block=(AS, 'impl Configurable for AnnotationStore')),
    ], extra=GHOST)
    u.trusted.append('callbacks of the dataset store of AnnotationStore (preinsert / inserted / preremove) assumed to meet the generic callback contracts')
    u.impl(A, 'impl AnnotationStore', [
        Fn('insert_data', props=P, ret='r',
           rewrites=[('R-request', r'self\.get_mut\(&dataitem\.dataset\)', '<Self as StoreFor<AnnotationDataSet>>::get_mut__build(self, &dataitem.dataset)'),
                     ('R-outline', r'AnnotationDataSet::new\(self\.config\(\)\.clone\(\)\)', 'AnnotationDataSet::new(vx_clone_config(<Self as Configurable>::config(self)))'),
                     ('R-request', r'self\s*\.insert\(', '<Self as StoreFor<AnnotationDataSet>>::insert(self, '),
                     ('R-request', r'self\.get_mut\(inserted_intid\)', '<Self as StoreFor<AnnotationDataSet>>::get_mut__handle(self, inserted_intid)', 'opt'),
                     ('R-expect', r'\.expect\("must exist after insertion"\)', '.unwrap()', 'opt'),
                     ('R-request', r'<AnnotationStore as StoreFor<AnnotationDataSet>>::has\(self, dataset_id\.as_str\(\)\)', '<Self as StoreFor<AnnotationDataSet>>::has__str(self, dataset_id.as_str())', 'opt'),
                     ('R-request', r'self\.get_mut\(dataset_id\.as_str\(\)\)', '<Self as StoreFor<AnnotationDataSet>>::get_mut__str(self, dataset_id.as_str())', 'opt'),
                     ('R-expect', r'\.expect\("must exist when has\(\) returns true"\)', '.unwrap()', 'opt'),
                     ('R-instantiate', r'(?<="default-annotationset")\.into\(\)', '.to_string()')],
           requires=[('wf', f'idmap_wf({SETS0}, Some(old(self).dataset_idmap.data@))'),
                     ('no_merge', '!old(self).config.merge'),
                     ('name_not_temp_form', f'!is_temp_form::<AnnotationDataSet>(old(self).dataset_idmap.resolve_temp_ids, {NAME})')],
           ensures=[
               ('existing_set', f'{EXISTING} ==> {SETS1}.len() == {SETS0}.len() && final(self).dataset_idmap.data@ == old(self).dataset_idmap.data@ '
                                f'&& {SETS1}[{TARGET}] is Some && ds_inserted({SETS0}[{TARGET}].unwrap(), dataitem.id, dataitem.key, dataitem.value, true, {SETS1}[{TARGET}].unwrap(), (match r {{ Ok(p) => Ok(p.1), Err(e) => Err(e) }})) '
                                f'&& (r is Ok ==> r->Ok_0.0.idx() == {TARGET})'),
               ('others_untouched', f'forall|i: int| 0 <= i < {SETS0}.len() && i != {TARGET} ==> #[trigger] {SETS1}[i] == {SETS0}[i]'),
               ('new_set', f'!{EXISTING} && r is Ok ==> {SETS1}.len() == {SETS0}.len() + 1 && r->Ok_0.0.idx() == {SETS0}.len() && {SETS1}.last() is Some '
                           f'&& {SETS1}.last().unwrap().sid() == Some({NAME}) '
                           f'&& final(self).dataset_idmap.data@ =~= old(self).dataset_idmap.data@.insert({NAME}, r->Ok_0.0)'),
               ('at_most_one_set', f'{SETS1}.len() == {SETS0}.len() || (!{EXISTING} && {SETS1}.len() == {SETS0}.len() + 1)'),
               # from the property (C14): a call that fails where a dataset would have had to be created leaves no dataset and no identifier behind
               ('refused_creates_nothing', f'!{EXISTING} && r is Err ==> {SETS1} == {SETS0} && final(self).dataset_idmap.data@ == old(self).dataset_idmap.data@'),
               ('unknown_handle_refused', f'{REFUSED} ==> r is Err'),               ('vocabulary', f'r is Ok ==> idmap_wf({SETS1}, Some(final(self).dataset_idmap.data@))'),
           ]),
    ])
    return u

"""U-store: the generic store layer of src/store.rs - StoreFor::{insert, remove, get, get_mut, has,
resolve_id, next_handle}, verified once, modularly, against contracts on the accessors and the
callbacks.  Serves C03 (identifiers), C02 (removal), C14 (failure atomicity of insert), C10."""
from vx.gen import Unit, Fn
from . import common
from . import store_common as sc

P = ['C03', 'C02', 'C14']
ST = sc.ST


def build():
    u = Unit('u_store', serves=['C03', 'C02', 'C14', 'C10', 'C19'])
    common.target64(u)
    common.handle_trait(u, P)
    for h in common.HANDLE_TYPES:
        common.handle_impl(u, h, P)
    sc.emit_storefor(u, P)
    return u

"""Shared pieces: the Handle trait and the concrete handle types, sliced from /repo."""
from vx.gen import Unit, Fn

HANDLE_TYPES = {
    # name: (file, repr, max)
    'AnnotationHandle': ('src/annotation.rs', 'u32'),
    'AnnotationDataHandle': ('src/annotationdata.rs', 'u32'),
    'AnnotationDataSetHandle': ('src/annotationdataset.rs', 'u16'),
    'DataKeyHandle': ('src/datakey.rs', 'u16'),
    'TextResourceHandle': ('src/resources.rs', 'u32'),
    'AnnotationSubStoreHandle': ('src/substore.rs', 'u16'),
    'TextSelectionHandle': ('src/textselection.rs', 'u32'),
}

STD_TRUSTED = 'trusted/std_specs.rs'


def std_specs(u):
    import os
    from vx.gen import VERIF
    with open(os.path.join(VERIF, STD_TRUSTED)) as f:
        txt = f.read()
    u.trusted_text(txt, 'assume_specification Vec::resize_with, Option::<&T>::copied (trusted/std_specs.rs)')


def target64(u):
    u.trusted_text('global size_of usize == 8;\n', 'assumption: 64-bit target (size_of usize == 8)')


HANDLE_GHOST = '''
    /// ghost view of the handle as an index
    spec fn idx(&self) -> usize;
    /// ghost: largest index the representation can hold
    spec fn hmax() -> usize;
    proof fn hmax_bound()
        ensures Self::hmax() <= 0xFFFF_FFFFusize;
    /// ghost: handles are plain wrappers, equal iff their index is equal
    proof fn idx_injective(a: Self, b: Self)
        ensures a.idx() == b.idx() <==> a == b;
'''


def handle_trait(u, props, with_reindex=False, reindex_fn=None):
    """trait Handle from src/types.rs with the ghost members every unit shares.
    Hash/DataSize/Debug supertraits are dropped (R-supertrait)."""
    fns = [
        Fn('new', props=props, ret='r',
           requires=[('in_range', 'intid <= Self::hmax()')],
           ensures=[('idx', 'r.idx() == intid')]),
        Fn('as_usize', props=props, ret='r',
           ensures=[('idx', 'r == self.idx()'), ('max', 'r <= Self::hmax()')]),
    ]
    if with_reindex:
        fns.append(reindex_fn)
    u.impl('src/types.rs', 'pub trait Handle: Clone + Copy + core::fmt::Debug + PartialEq + Eq + PartialOrd + Ord + Hash + DataSize',
           fns, verus_header='pub trait Handle: Copy + PartialEq + Eq + PartialOrd + Ord + Sized', extra=HANDLE_GHOST)


def handle_impl(u, name, props):
    file, rep = HANDLE_TYPES[name]
    u.item(file, 'struct', name, keep_derives=['Clone', 'Copy', 'PartialEq', 'Eq', 'PartialOrd', 'Ord'],
           extra_derive=None)
    ghost = f'''
    open spec fn idx(&self) -> usize {{ self.0 as usize }}
    open spec fn hmax() -> usize {{ {rep}::MAX as usize }}
    proof fn hmax_bound() {{}}
    proof fn idx_injective(a: Self, b: Self) {{}}
'''
    u.impl(file, f'impl Handle for {name}', [
        Fn('new', props=props, ret='r'),
        Fn('as_usize', props=props, ret='r'),
    ], extra=ghost)


def int_specs(u):
    import os
    from vx.gen import VERIF
    with open(os.path.join(VERIF, 'trusted/int_specs.rs')) as f:
        txt = f.read()
    u.trusted_text(txt, 'assume_specification isize::abs (requires != MIN), isize::unsigned_abs (trusted/int_specs.rs)')

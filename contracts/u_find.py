"""U-find: FindTextSelectionsIter (src/textselection.rs) - the related-text search.  Built on top of
U-rel: the oracle is the relation specification the tests are proved equal to.  Serves C06."""
import re
from vx.gen import Unit, Fn
from . import common
from . import u_rel

P = ['C06']
F = 'src/textselection.rs'
R = 'src/resources.rs'

STUBS = r'''
/// R-opaque: TextSelectionIter (a btree_map::Range over the position index plus per-position cursors).
/// Only its bounds matter to the search; its walk is an assumed contract (see next_textselection).
#[verifier::external_body]
pub struct TextSelectionIter<'a> { _p: std::marker::PhantomData<&'a usize> }

impl<'a> TextSelectionIter<'a> {
    /// ghost: the half-open range [lo, hi) of positions this iterator walks
    pub uninterp spec fn lo(&self) -> usize;
    pub uninterp spec fn hi(&self) -> usize;
}

impl TextResource {
    /// ghost: length of the text in codepoints
    pub uninterp spec fn tl(&self) -> usize;

    /// stands for `impl Text for TextResource { fn textlen(&self) -> usize { self.textlen } }`
    #[verifier::external_body]
    pub fn textlen(&self) -> (r: usize)
        ensures r == self.tl(),
    { unimplemented!() }

    /// stands for TextResource::range (src/resources.rs): positionindex.range((Included(&begin), Excluded(&end)))
    #[verifier::external_body]
    pub fn range<'a>(&'a self, begin: usize, end: usize) -> (r: TextSelectionIter<'a>)
        ensures r.lo() == begin, r.hi() == end,
    { unimplemented!() }
}

/// a (range, direction) pair finds candidate t: forward iteration visits selections by their begin,
/// backward iteration by their end
pub open spec fn finds(it: (TextSelectionIter, bool), t: TextSelection) -> bool {
    if it.1 { it.0.lo() <= t.begin < it.0.hi() } else { it.0.lo() <= t.end < it.0.hi() }
}

pub open spec fn covered(its: Seq<(TextSelectionIter, bool)>, t: TextSelection) -> bool {
    exists|k: int| 0 <= k < its.len() && finds(#[trigger] its[k], t)
}

/// no candidate is visited by two of the chosen ranges ("each once")
pub open spec fn found_once(its: Seq<(TextSelectionIter, bool)>, t: TextSelection) -> bool {
    forall|k1: int, k2: int| 0 <= k1 < k2 < its.len() ==> !(finds(#[trigger] its[k1], t) && finds(#[trigger] its[k2], t))
}
'''


COVER_HINT = '''proof {
            let rs = old(self).refset.data@;
            lemma_min_begin(rs); lemma_max_end(rs);
            assert forall|t: TextSelection| wf(t) && t.end <= old(self).resource.tl() && #[trigger] t1(old(self).operator, rs, t, old(self).resource) implies finds(self.textseliters@[0], t) by {
                assert(rel_pos(old(self).operator, rs[0], t, old(self).resource) || subject_by_bound(old(self).operator) || negated(old(self).operator));
            }
        }'''


def build():
    u = u_rel.build()
    u.name = 'u_find'
    u.serves = ['C06']
    u.use('use std::collections::VecDeque;')
    u.trusted_text(STUBS, 'external_body TextSelectionIter (opaque range over the position index), TextResource::{textlen, range} stubs')
    u.impl(R, 'impl TextResource', [
        Fn('iter', props=P, ret='r', requires=[('fits', 'self.tl() < usize::MAX')],
           ensures=[('covers_all', 'forall|t: TextSelection| wf(t) && t.end <= self.tl() ==> r.lo() <= #[trigger] t.begin < r.hi()')]),
    ])
    OPT_MAP = lambda m, f: ('R-closure-inline', r'self\.' + m + r'\(\)\.map\(\|x\| x\.' + f + r'\(\)\)',
                            f'(match self.{m}() {{ Some(x) => Some(x.{f}()), None => None }})')
    u.impl(F, 'impl TextSelectionSet', [
        Fn('get', props=P, ret='r', ensures=[('some_iff', 'r is Some <==> index < self.data@.len()'), ('item', 'r is Some ==> *r.unwrap() == self.data@[index as int]')]),
        Fn('begin', props=P, ret='r', rewrites=[OPT_MAP('leftmost', 'begin')], requires=[('inv', 'self.inv()')],
           ensures=[('some_iff', 'r is Some <==> self.data@.len() > 0'), ('min', 'r is Some ==> r.unwrap() == min_begin(self.data@)')]),
        Fn('end', props=P, ret='r', rewrites=[OPT_MAP('rightmost', 'end')],
           ensures=[('some_iff', 'r is Some <==> self.data@.len() > 0'), ('max', 'r is Some ==> r.unwrap() == max_end(self.data@)')]),
    ])
    u.item(F, 'struct', 'FindTextSelectionsIter', keep_derives=[],
           rewrites=[('R-vis', r'\b(resource|operator|refset|textseliters|textseliter_index|buffer|drain_buffer):', r'pub \1:')])
    REF_IT = ('R-wrapiter', r'for reftextselection in self\.refset\.iter\(\)', 'for reftextselection in vx_it: self.refset.data.iter()')
    L = 'old(self).resource.tl()'
    RS = 'old(self).refset.data@'
    u.impl(F, "impl<'store> FindTextSelectionsIter<'store>", [
        Fn('init_textseliters', props=P,
           prologue='proof { lemma_min_begin(old(self).refset.data@); lemma_max_end(old(self).refset.data@); }',
           before=[('return;', COVER_HINT, None, 'cover'), (r're:\}\s*\Z', COVER_HINT, None, 'cover')],
           requires=[('nonempty', f'{RS}.len() > 0'), ('wf', f'set_wf({RS}) && old(self).refset.inv()'),
                     ('inside', f'forall|i: int| 0 <= i < {RS}.len() ==> (#[trigger] {RS}[i]).end <= {L}'),
                     ('fits', f'{L} < usize::MAX - WHITESPACE_LIMIT - 1'),
                     ('fresh', 'old(self).textseliters@.len() == 0')],
           ensures=[
               ('frame', 'final(self).operator == old(self).operator && final(self).refset == old(self).refset && final(self).resource == old(self).resource && final(self).buffer == old(self).buffer && final(self).drain_buffer == old(self).drain_buffer && final(self).textseliter_index == old(self).textseliter_index'),
               ('some_range', 'final(self).textseliters@.len() > 0'),
               ('cover', f'forall|t: TextSelection| wf(t) && t.end <= {L} && #[trigger] t1(old(self).operator, {RS}, t, old(self).resource) ==> covered(final(self).textseliters@, t)'),
               ('once', f'forall|t: TextSelection| wf(t) && t.end <= {L} && #[trigger] t1(old(self).operator, {RS}, t, old(self).resource) ==> found_once(final(self).textseliters@, t)'),
           ]),
    ])
    return u

// replay of the defect repaired by /repo commit 377cf4d (C04): copy to /repo/tests/ and run it with cargo test; it fails on the parent commit.
// absolute_offset() converts offsets that do not fit the text instead of refusing them:
// begin-aligned cursors beyond the end and inverted ranges come back as Ok(..), while
// textselection()/text_by_offset() on the very same text refuse them.
use stam::*;

fn store() -> AnnotationStore {
    AnnotationStore::default()
        .with_id("s")
        .with_resource(TextResourceBuilder::new().with_id("r").with_text("héllo wörld"))
        .unwrap()
}

fn candidates() -> Vec<Offset> {
    let mut v = Vec::new();
    let mut cursors = Vec::new();
    for b in 0..=8usize {
        cursors.push(Cursor::BeginAligned(b));
    }
    for e in 0..=8isize {
        cursors.push(Cursor::EndAligned(-e));
    }
    for b in cursors.iter() {
        for e in cursors.iter() {
            v.push(Offset::new(*b, *e));
        }
    }
    v
}

#[test]
fn absolute_offset_on_textselection_refuses_what_textselection_refuses() {
    let store = store();
    let resource = store.resource("r").unwrap();
    // the word "wörld", five codepoints at 6..11
    let word = resource.textselection(&Offset::simple(6, 11)).unwrap();
    assert_eq!(word.text(), "wörld");
    let mut accepted_invalid = Vec::new();
    for offset in candidates() {
        let reference = word.textselection(&offset); //validates the relative offset against the 5 codepoints
        let absolute = word.absolute_offset(&offset);
        match (reference, absolute) {
            (Ok(ts), Ok(abs)) => {
                assert_eq!(
                    abs,
                    Offset::simple(ts.begin(), ts.end()),
                    "absolute_offset({:?}) must denote the same range as textselection()",
                    offset
                );
            }
            (Err(_), Err(_)) => {}
            (Err(_), Ok(abs)) => accepted_invalid.push((offset, abs)),
            (Ok(_), Err(e)) => panic!("absolute_offset refused the valid offset {:?}: {}", offset, e),
        }
    }
    assert!(
        accepted_invalid.is_empty(),
        "absolute_offset() must refuse offsets that do not denote 0 <= begin <= end <= 5 in \"wörld\", but it accepted {} of them, e.g. {:?}",
        accepted_invalid.len(),
        &accepted_invalid[..accepted_invalid.len().min(4)]
    );
}

#[test]
fn absolute_offset_examples() {
    let store = store();
    let resource = store.resource("r").unwrap();
    let word = resource.textselection(&Offset::simple(6, 11)).unwrap();
    // out of range: "wörld" has 5 codepoints, the resource 11
    assert!(
        word.absolute_offset(&Offset::simple(0, 9)).is_err(),
        "end cursor 9 is beyond the 5 codepoints of the text selection: expected an error, got {:?}",
        word.absolute_offset(&Offset::simple(0, 9))
    );
    // inverted
    assert!(
        word.absolute_offset(&Offset::simple(4, 2)).is_err(),
        "inverted offset 4..2: expected an error, got {:?}",
        word.absolute_offset(&Offset::simple(4, 2))
    );
    // inverted through mixed alignment: begin 4, end -3 (= 2)
    assert!(
        word.absolute_offset(&Offset::new(Cursor::BeginAligned(4), Cursor::EndAligned(-3)))
            .is_err(),
        "inverted offset 4..-3: expected an error, got {:?}",
        word.absolute_offset(&Offset::new(Cursor::BeginAligned(4), Cursor::EndAligned(-3)))
    );
    // the low-level TextSelection has the same method
    let inner: &TextSelection = word.inner();
    assert!(
        inner.absolute_offset(&Offset::simple(7, 7)).is_err(),
        "TextSelection::absolute_offset(7..7) on a selection of length 5: expected an error, got {:?}",
        inner.absolute_offset(&Offset::simple(7, 7))
    );
}

#[test]
fn absolute_offset_on_resource_refuses_invalid_offsets() {
    let store = store();
    let resource = store.resource("r").unwrap();
    assert_eq!(
        resource.absolute_offset(&Offset::whole()).unwrap(),
        Offset::simple(0, 11)
    );
    assert!(
        resource.textselection(&Offset::simple(3, 40)).is_err()
            && resource.text_by_offset(&Offset::simple(3, 40)).is_err()
    );
    assert!(
        resource.absolute_offset(&Offset::simple(3, 40)).is_err(),
        "offset 3..40 on a text of 11 codepoints: expected an error, got {:?}",
        resource.absolute_offset(&Offset::simple(3, 40))
    );
    assert!(
        resource
            .absolute_offset(&Offset::new(Cursor::EndAligned(-2), Cursor::BeginAligned(3)))
            .is_err(),
        "inverted offset -2..3 (= 9..3): expected an error, got {:?}",
        resource.absolute_offset(&Offset::new(Cursor::EndAligned(-2), Cursor::BeginAligned(3)))
    );
}
